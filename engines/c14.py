"""C14 - the MSP430 simulator executes every instruction as the architecture
defines; -run ends at the final ret and reports that execution; a write to the
-break_io address ends the run with the written value as exit status.

Workload A (per-step clause): the real SimulateMsp430 is stepped in lockstep
with the reference model of sim/engine_c14.cpp; every (instruction, size,
source mode, destination mode, register class) cell is visited under all 16
C/Z/N/V states by directed runs, seeded multi-step streams come on top.

Workload B (run-loop clause): a seeded routine, assembled by the real
naken_asm, is executed by the real naken_util main() under different
schedules of the simulated clock and console - `-run`, `-run -break_io`,
step x n, run with a breakpoint and resume, run interrupted by SIGINT and
resumed, call - and every observation (register dump, cycle count, exit
status) is compared with the reference model's execution of the same bytes.
"""
import copy
import re
import struct

from vlib.core import *
from vlib.framework import Engine, RunResult
from vlib import decoders

VALS = [0, 1, 2, 4, 8, 0x7f, 0x80, 0xff, 0x100, 0x7fff, 0x8000, 0xfffe, 0xffff, 0x1234, 0x00ff, 0xff00, 0x0099, 0x9999, 0x5a5a, 0x0010]
BCD = [0, 1, 9, 0x10, 0x99, 0x100, 0x999, 0x1000, 0x9999, 0x1234, 0x5000, 0x0909]
F1 = {4: "mov", 5: "add", 6: "addc", 7: "subc", 8: "sub", 9: "cmp", 10: "dadd", 11: "bit", 12: "bic", 13: "bis", 14: "xor", 15: "and"}
CASES_PER_RUN = 96
DATA_LO, DATA_HI = 0x0200, 0x03ff
STACK = 0x0a00

_cells = None


def cells():
    global _cells
    if _cells is None:
        out = []
        for o in range(4, 16):
            for bw in (0, 1):
                for As in range(4):
                    for Ad in (0, 1):
                        for sc in range(5):
                            for dc in range(5):
                                out.append(("f1", o, bw, As, Ad, sc, dc))
        for o in range(7):
            for bw in (0, 1):
                for As in range(4):
                    for rc in range(5):
                        out.append(("f2", o, bw, As, rc))
        for cond in range(8):
            out.append(("j", cond))
        _cells = out
    return _cells


def flag_bits(k):
    return (1 if k & 1 else 0) | (2 if k & 2 else 0) | (4 if k & 4 else 0) | (0x100 if k & 8 else 0)


def reg_of(rng, cls):
    return cls if cls < 4 else rng.range(4, 15)


def data_addr(rng, bw):
    a = rng.range(DATA_LO, DATA_HI - 2) if rng.chance(7, 8) else rng.pick([0x0000, 0xfffe, 0xfffc, STACK, 0x01fe, 0x0400])
    if not bw or rng.chance(3, 4):
        a &= 0xfffe
    return a


def build_insn(rng, cell, regs, pc, o_bcd=False):
    """Returns the instruction words; adjusts regs so that memory operands land in the data window."""
    kind = cell[0]
    if kind == "j":
        off = rng.pick([0, 1, 2, 5, 0x1ff, 0x200, 0x3ff, 0x3fe, 0x100]) if rng.chance(1, 2) else rng.below(1024)
        return [0x2000 | (cell[1] << 10) | off]
    words = []
    if kind == "f2":
        _, o, bw, As, rc = cell
        reg = reg_of(rng, rc)
        opc = 0x1000 | (o << 7) | (bw << 6) | (As << 4) | reg
        if o == 6:
            opc = 0x1300 if (bw == 0 and As == 0 and reg == 0) or rng.chance(3, 4) else opc
        words.append(opc)
        words += operand_ext(rng, reg, As, bw, regs, pc + 2)
        return words
    _, o, bw, As, Ad, sc, dc = cell
    sreg, dreg = reg_of(rng, sc), reg_of(rng, dc)
    words.append((o << 12) | (sreg << 8) | (Ad << 7) | (bw << 6) | (As << 4) | dreg)
    ext = operand_ext(rng, sreg, As, bw, regs, pc + 2, bcd=(o == 10))
    words += ext
    if Ad == 1:
        words += operand_ext(rng, dreg, 1, bw, regs, pc + 2 + 2 * len(ext), bcd=(o == 10))
    elif o == 10 and dreg >= 4:
        regs[dreg] = rng.pick(BCD)
    return words


def operand_ext(rng, reg, As, bw, regs, ext_addr, bcd=False):
    """Extension word(s) of one operand; points pointer registers into the data window."""
    if reg == 3 or (reg == 2 and As >= 2):
        return []
    if As == 0:
        if bcd and reg >= 4:
            regs[reg] = rng.pick(BCD)
        return []
    t = data_addr(rng, bw)
    if As == 1:
        if reg == 0:
            return [(t - ext_addr) & 0xffff]
        if reg == 2:
            return [t]
        if reg >= 4 and rng.chance(3, 4):
            regs[reg] = (t - rng.pick([0, 2, 4, 0x10, 0xfffe, 0x8000, 0x7ffe])) & 0xffff
        return [(t - regs[reg]) & 0xffff]
    if reg == 0:
        return [rng.pick(BCD if bcd else VALS)] if As == 3 else []
    if reg >= 4:
        regs[reg] = t
    return []


def make_case(rng, cell, fl, nsteps=1, stream=None):
    regs = [0] * 16
    for i in range(4, 16):
        regs[i] = rng.pick(VALS) if rng.chance(3, 4) else rng.below(1 << 16)
    pc = 0x8000 + 2 * rng.below(64)
    regs[0] = pc
    regs[1] = STACK + 2 * rng.below(16)
    regs[2] = flag_bits(fl) | (8 if rng.chance(1, 4) else 0)
    words = build_insn(rng, cell, regs, pc)
    code = list(words)
    if stream:
        at = pc + 2 * len(code)
        for c in stream:
            w = build_insn(rng, c, list(regs), at)      # later instructions must not re-aim the registers
            code += w
            at += 2 * len(w)
    code += [0x3fff] * 2                                # jmp $: a stream that runs off its end spins in place
    data = rng.bytes(DATA_HI - DATA_LO + 1)
    if cell[0] == "f1" and cell[1] == 10:
        # DADD: keep the data window valid BCD so that memory operands are defined
        data = bytes(((b >> 4) % 10) << 4 | ((b & 15) % 10) for b in data)
    wins = [[pc, b"".join(struct.pack("<H", w) for w in code).hex()],
            [DATA_LO, data.hex()],
            [STACK - 0x20, rng.bytes(0x60).hex()],
            [0xfff0, rng.bytes(16).hex()], [0x0000, rng.bytes(16).hex()]]
    return {"regs": regs, "wins": wins, "nsteps": nsteps, "cell": list(cell)}


# ------------------------------------------------------------------ routines for workload B

def gen_routine(rng, break_io=None):
    """A bounded routine: straight-line arithmetic, counted loops, balanced push/pop, nested calls, final ret."""
    lines = [".msp430", ".org 0xf000", "start:"]
    subs = []
    nsub = rng.below(3)

    def op():
        r, q = rng.range(4, 11), rng.range(4, 11)
        m = DATA_LO + 2 * rng.below(64)
        b = rng.pick(["", ".b"]) if rng.chance(1, 3) else ""
        k = rng.below(22)
        if k == 0:
            return "  mov.w #0x%04x, r%d" % (rng.pick(VALS), r)
        if k == 1:
            return "  add%s r%d, r%d" % (b or ".w", q, r)
        if k == 2:
            return "  sub%s #%d, r%d" % (b or ".w", rng.below(300), r)
        if k == 3:
            return "  xor%s r%d, r%d" % (b or ".w", q, r)
        if k == 4:
            return "  mov%s r%d, &0x%04x" % (b or ".w", r, m)
        if k == 5:
            return "  add%s &0x%04x, r%d" % (b or ".w", m, r)
        if k == 6:
            return "  rra%s r%d" % (b or ".w", r)
        if k == 7:
            return "  rrc%s r%d" % (b or ".w", r)
        if k == 8:
            return "  swpb r%d" % r
        if k == 9:
            return "  sxt r%d" % r
        if k == 10:
            return "  push r%d\n  mov.w #0x%04x, r%d\n  mov.w @sp+, r%d" % (r, rng.pick(VALS), r, q)
        if k == 11:
            return "  addc%s #%d, r%d" % (b or ".w", rng.below(5), r)
        if k == 12:
            return "  subc%s r%d, r%d" % (b or ".w", q, r)
        if k == 13:
            return "  cmp%s #0x%04x, r%d\n  %s $+4\n  add.w #1, r%d" % (b or ".w", rng.pick(VALS) & (0xff if b else 0xffff), r,
                                                                        rng.pick(["jne", "jeq", "jnc", "jc", "jn", "jge", "jl"]), q)
        if k == 14:
            return "  and%s #0x%04x, r%d" % (b or ".w", rng.pick(VALS) & (0xff if b else 0xffff), r)
        if k == 15:
            return "  bis%s r%d, &0x%04x" % (b or ".w", r, m)
        if k == 16:
            return "  bic%s #0x%04x, r%d" % (b or ".w", rng.pick(VALS) & (0xff if b else 0xffff), r)
        if k == 17:
            return "  bit%s #0x%04x, r%d" % (b or ".w", rng.pick(VALS) & (0xff if b else 0xffff), r)
        if k == 18:
            return "  mov.w #0x%04x, r13\n  mov%s @r13+, r%d\n  add%s @r13, r%d" % (m, b or ".w", r, b or ".w", q)
        if k == 19:
            return "  dadd%s #0x%04x, r%d" % ("", rng.pick(BCD), r) if False else "  add.w r%d, r%d" % (r, q)
        if k == 20 and nsub:
            # every form of CALL: immediate, register, indirect, indirect auto-increment, indexed, absolute
            t = rng.below(nsub)
            form = rng.below(6)
            if form == 0:
                return "  call #sub%d" % t
            if form == 1:
                return "  mov.w #sub%d, r13\n  call r13" % t
            if form == 2:
                return "  mov.w #sub%d, &0x03f0\n  mov.w #0x03f0, r13\n  call @r13" % t
            if form == 3:
                return "  mov.w #sub%d, &0x03f2\n  mov.w #0x03f2, r13\n  call @r13+" % t
            if form == 4:
                return "  mov.w #sub%d, &0x03f4\n  mov.w #0x03f0, r13\n  call 4(r13)" % t
            return "  mov.w #sub%d, &0x03f6\n  call &0x03f6" % t
        return "  mov%s %d(r14), r%d" % (b or ".w", 2 * rng.below(8), r)

    lines.append("  mov.w #0x%04x, r14" % DATA_LO)
    nblocks = rng.range(2, 6)
    bio_block = rng.below(nblocks) if break_io is not None else -1
    for bl in range(nblocks):
        if bl == bio_block:
            # stores next to the port (never touching it) first: only a write to the port itself ends the run
            for _ in range(rng.below(4)):
                nb = rng.pick([(-1, ".b"), (1, ".b"), (-2, ".w"), (2, ".w"), (-2, ".b"), (3, ".b")])
                if break_io[0] + nb[0] >= 0:
                    lines.append("  mov%s #%d, &0x%04x" % (nb[1], rng.range(1, 255), break_io[0] + nb[0]))
            lines.append("  mov.b #%d, &0x%04x" % (break_io[1], break_io[0]))
        if rng.chance(1, 3):
            lines.append("  mov.w #%d, r12" % rng.range(1, 6))
            lines.append("loop%d:" % bl)
            for _ in range(rng.range(1, 4)):
                lines.append(op())
            lines.append("  sub.w #1, r12")
            lines.append("  jne loop%d" % bl)
        else:
            for _ in range(rng.range(1, 5)):
                lines.append(op())
        if bl == 0:
            lines.append("mid:")
    lines.append("  ret")
    for s in range(nsub):
        lines.append("sub%d:" % s)
        for _ in range(rng.range(1, 4)):
            o = op()
            if "call" not in o:
                lines.append(o)
        lines.append("  ret")
    lines += [".org 0xfffe", ".dw start"]
    return "\n".join(lines) + "\n"


REG_LINE = re.compile(r" PC: 0x([0-9a-f]{4}),  SP: 0x([0-9a-f]{4}),  SR: 0x([0-9a-f]{4}),  CG: 0x([0-9a-f]{4}),")
RN = re.compile(r"r(\d+): 0x([0-9a-f]{4}),")
CYC = re.compile(r"(\d+) clock cycles have passed since last reset")


def parse_dump(text):
    """Last register dump in a piece of naken_util output -> (regs dict, cycles) or None."""
    ms = list(REG_LINE.finditer(text))
    if not ms:
        return None
    m = ms[-1]
    regs = {0: int(m.group(1), 16), 1: int(m.group(2), 16), 2: int(m.group(3), 16)}
    rest = text[m.end():m.end() + 900]
    for mm in RN.finditer(rest):
        n = int(mm.group(1))
        if 4 <= n <= 15 and n not in regs:
            regs[n] = int(mm.group(2), 16)
    mc = CYC.search(rest)
    if len(regs) < 15 or not mc:
        return None
    return regs, int(mc.group(1))


class C14(Engine):
    prop = "C14"
    title = "the MSP430 simulator executes every instruction as the architecture defines"
    quick_budget = 60
    quick_runs = 5000
    thorough_runs = 20000
    thorough_budget = 900
    variants = ("small",)
    rule = ("run i < %d (directed) = 96 lockstep cases of one step each: the real SimulateMsp430 against the reference model of "
            "sim/engine_c14.cpp, enumerating every cell (12 two-operand instructions x byte/word x 4 source modes x 2 destination modes x "
            "{PC,SP,SR,CG,Rn} source x {PC,SP,SR,CG,Rn} destination; 7 one-operand instructions x byte/word x 4 modes x 5 register "
            "classes; 8 jumps) under all 16 C/Z/N/V states with boundary-biased operand values and memory operands aimed into a seeded "
            "data window; later runs alternate (a) 96 seeded multi-step streams in lockstep and (b) one seeded routine assembled by the "
            "real naken_asm and executed by the real naken_util main() under 5-6 schedules (-run, -run -break_io, step x n, run + "
            "breakpoint + resume, run + SIGINT + resume, call), each observation compared with the model's execution of the same bytes.  "
            "Distinct = distinct case transcript / session event hash; non-trivial = the instruction executed and was compared (not "
            "excluded / undefined), or the session shared simulator state across at least two console commands." % 0)
    assumptions = ["the reference model is written from SLAU049/SLAU144 chapter 3; cells the guides leave open are excluded, not compared: "
                   "odd PC/SP values and word accesses at odd addresses, PUSH/CALL with SP as operand, byte operations writing PC or SP, "
                   "x(R3) or constants/immediates as destination, flag-setting instructions with SR as destination, @PC "
                   "as source, DADD on non-BCD operands, SWPB/SXT/CALL/RETI with the byte bit set",
                   "don't-care bits: V after RRC (the two guides disagree) and after DADD (undefined), the upper byte of the stack word "
                   "written by PUSH.B, SR bits above V, R3 as a register",
                   "opcodes outside the 16-bit core (0x0000-0x0fff, 0x1380-0x13ff, 0x1400-0x1fff) are executed (C15 monitors them) but not compared",
                   "break_io is exercised with byte writes, the form docs/simulating.md documents; routines also store bytes and words next to the port (never on it) before they write to it"]
    real_components = Engine.real_components + ["SimulateMsp430 driven in-process by sim/engine_c14.cpp (set_reg, run(-1, 1)) and through naken_util's main()"]
    stub_components = Engine.stub_components + ["MSP430 reference model (sim/engine_c14.cpp), the oracle"]

    def directed(self):
        return (len(cells()) * 16 + CASES_PER_RUN - 1) // CASES_PER_RUN

    def plan(self, rng, index):
        plan = self._plan(rng, index)
        # every third run uses the small-page build of /repo (256-byte memory pages)
        plan["build"] = "small" if index % 3 == 2 else "san"
        return plan

    def _plan(self, rng, index):
        cs = cells()
        if index < self.directed():
            cases = []
            for j in range(CASES_PER_RUN):
                k = index * CASES_PER_RUN + j
                if k >= len(cs) * 16:
                    break
                cases.append(make_case(rng, cs[k // 16], k % 16))
            return {"kind": "lockstep", "cases": cases}
        if (index - self.directed()) % 2 == 0:
            cases = []
            for j in range(CASES_PER_RUN):
                n = rng.range(2, 12)
                stream = [self.stream_cell(rng) for _ in range(n)]
                cases.append(make_case(rng, self.stream_cell(rng), rng.below(16), nsteps=n + 1, stream=stream))
            return {"kind": "lockstep", "cases": cases}
        bio = None
        if rng.chance(1, 2):
            bio = [rng.pick([0x0000, 0x0010, 0x01f0, 0x0700]), rng.range(0, 255)]
        return {"kind": "session", "src": gen_routine(rng, bio), "break_io": bio,
                "steps": rng.range(1, 12), "sig_k": rng.pick([1, 2, 3, 5, 9, 17]), "speed": rng.pick([1, 10, 1000, 1000000]),
                "env": {"heap_fill": rng.below(4), "heap_seed": rng.u64(), "stack_fill": rng.below(4), "stack_seed": rng.u64()}}

    @staticmethod
    def stream_cell(rng):
        k = rng.below(10)
        if k < 7:
            # destinations among r4..r11 / memory, sources anywhere
            return ("f1", rng.range(4, 15), rng.below(2), rng.below(4), rng.below(2) if rng.chance(1, 3) else 0, rng.pick([0, 2, 3, 4, 4, 4]), 4)
        if k < 9:
            return ("f2", rng.pick([0, 1, 2, 3, 4]), rng.below(2), rng.pick([0, 0, 1, 2, 3]), 4)
        return ("j", rng.below(8))

    # ------------------------------------------------------------------ execution
    def encode_lockstep(self, cases, ids):
        w = W()
        w.u32(len(cases))
        for cid, c in zip(ids, cases):
            w.u32(cid)
            w.u8(0)
            for r in c["regs"]:
                w.u32(r)
            w.u32(c["nsteps"])
            w.u32(0xffffffff)
            w.u32(0x10000)
            w.u32(len(c["wins"]))
            for a, h in c["wins"]:
                w.u32(a)
                w.bytes(bytes.fromhex(h))
        return bytes(w.b)

    def run(self, ex, plan):
        ex = self.variant(ex, plan.get("build"))
        if plan["kind"] == "lockstep":
            return self.run_lockstep(ex, plan)
        return self.run_session(ex, plan)

    def run_lockstep(self, ex, plan):
        res = RunResult()
        cases = plan["cases"]
        todo = list(range(len(cases)))
        digests = []
        guard = 0
        while todo and guard < len(cases) + 2:
            guard += 1
            o = ex.call(build_request(MODE_C14, [], {}, env={"event_ceiling": 20000000},
                                      extra=self.encode_lockstep([cases[i] for i in todo], todo), cpu_ms=20000, wall_ms=120000))
            res.absorb(o)
            res.ops -= 1
            text = o.text()
            blocks = re.split(r"^@@CASE (\d+)\n", text, flags=re.M)
            done = set()
            last = None
            for k in range(1, len(blocks), 2):
                cid, body = int(blocks[k]), blocks[k + 1]
                last = cid
                m = re.search(r"^@@END %d executed=(\d+) frame=(-?\d+)" % cid, body, re.M)
                if not m:
                    continue
                done.add(cid)
                digests.append(plan_hash(body))
                res.hashes.append(stable_hash(body))
                res.ops += int(m.group(1))
                self.judge_case(res, cases[cid], body, int(m.group(1)), int(m.group(2)))
            ck = crash_key(o, "c14")
            if ck is not None:
                c = cases[last] if last is not None else None
                res.viol("A:crash:%s" % ck, cell=c["cell"] if c else None, stderr=o.stderr.decode("latin-1")[:800])
                if last is not None:
                    done.add(last)
            todo = [i for i in todo if i not in done]
            if ck is None and todo:
                res.probe("cases_not_reported", len(todo))
                break
        res.digest = plan_hash(digests)
        return res

    def judge_case(self, res, case, body, executed, frame):
        md = re.search(r"^@@DIV \d+ step=(\d+) op=(\w+) mnem=(\S*) src=(\S+) dst=(\S+) comp=(\S+) (.*)$", body, re.M)
        if md:
            step, op, mnem, src, dst, comp, detail = md.groups()
            res.viol("A:%s:%s:%s:%s" % (mnem or "?", src, dst, comp), op=op, step=int(step), detail=detail, cell=case["cell"],
                     regs=["%04x" % r for r in case["regs"]])
            return
        if "@@EXCL" in body:
            res.probe("excluded_cell")
        if "@@UNDEF" in body:
            res.probe("undefined_opcode_not_compared")
            return
        if executed:
            res.nontrivial = True
            res.probe("steps_compared", executed)
        if frame >= 0:
            res.viol("A:frame:byte-outside-the-destination-changed", addr="0x%04x" % frame, cell=case["cell"])

    # ---- workload B
    def model(self, ex, res, image, queries):
        """queries: list of dicts(regs, nsteps, break_io, stop_pc) -> list of dicts(end, steps, cycles, break, regs)."""
        w = W()
        w.u32(len(queries))
        wins = self.windows(image)
        for i, q in enumerate(queries):
            w.u32(i)
            w.u8(1)
            for r in q["regs"]:
                w.u32(r)
            w.u32(q.get("nsteps", 200000))
            w.u32(q["break_io"] if q.get("break_io") is not None else 0xffffffff)
            w.u32(q.get("stop_pc", 0x10000))
            w.u32(len(wins))
            for a, d in wins:
                w.u32(a)
                w.bytes(d)
        o = ex.call(build_request(MODE_C14, [], {}, env={"event_ceiling": 20000000}, extra=bytes(w.b), cpu_ms=20000))
        res.absorb(o)
        out = {}
        for m in re.finditer(r"^@@MODEL (\d+) end=(\w+) steps=(\d+) cycles=(\d+) break=(-?\d+) why=(.*?) regs=(\S+) memhash=(\w+)", o.text(), re.M):
            out[int(m.group(1))] = {"end": m.group(2), "steps": int(m.group(3)), "cycles": int(m.group(4)), "break": int(m.group(5)),
                                    "regs": [int(x, 16) for x in m.group(7).split(",")], "why": m.group(6)}
        return [out.get(i) for i in range(len(queries))]

    @staticmethod
    def windows(image):
        wins = []
        for a in sorted(image):
            if wins and wins[-1][0] + len(wins[-1][1]) == a:
                wins[-1][1].append(image[a])
            else:
                wins.append([a, bytearray([image[a]])])
        return [(a, bytes(d)) for a, d in wins]

    def compare(self, res, tag, what, dump, ref, cycles=True):
        if dump is None:
            res.unparsed += 1
            return
        regs, cyc = dump
        for n in [0, 1] + list(range(4, 16)):
            if regs.get(n) != ref["regs"][n]:
                res.viol("B:%s:%s:%s" % (tag, what, "PC" if n == 0 else "SP" if n == 1 else "register"),
                         reg="r%d" % n, got="%04x" % regs.get(n, -1), want="%04x" % ref["regs"][n], model_end=ref["end"], model_steps=ref["steps"])
                return
        if (regs[2] ^ ref["regs"][2]) & 0x107:
            res.viol("B:%s:%s:flags" % (tag, what), got="%04x" % regs[2], want="%04x" % ref["regs"][2])
            return
        if cycles and cyc != ref["cycles"]:
            res.viol("B:%s:%s:cycles" % (tag, what), got=cyc, want=ref["cycles"], model_steps=ref["steps"])

    def run_session(self, ex, plan):
        res = RunResult()
        digests = []
        env = dict(plan["env"])
        env["event_ceiling"] = 4000000
        src = plan["src"].encode()
        o = ex.call(build_request(MODE_ASM, ["naken_asm", "-o", "r.hex", "r.asm"], {"/sim/w/r.asm": src}, cpu_ms=8000))
        res.absorb(o)
        digests.append(o.digest())
        hexfile = None
        for p, k, d in o.delta:
            if p == "/sim/w/r.hex" and k == 0:
                hexfile = d
        if o.kind() != "exit" or o.status != 0 or hexfile is None:
            res.probe("routine_rejected_by_assembler")
            res.digest = plan_hash(digests)
            return res
        image, meta, problems = decoders.DECODERS["hex"](hexfile)
        start = image.get(0xfffe, 0) | (image.get(0xffff, 0) << 8)
        mid = None
        bio = plan["break_io"]
        reset = [0] * 16
        reset[0], reset[1] = start, 0x0800
        called = list(reset)
        called[1] = 0x07fe
        img_call = dict(image)
        img_call[0x07fe], img_call[0x07ff] = 0xff, 0xff
        k = plan["sig_k"]
        n = plan["steps"]
        q = [{"regs": reset},                                      # 0: whole routine (-run, run)
             {"regs": reset, "break_io": bio[0]} if bio else {"regs": reset, "nsteps": 0},   # 1: break_io
             {"regs": reset, "nsteps": n},                         # 2: n steps
             {"regs": reset, "nsteps": k - 1}, {"regs": reset, "nsteps": k}, {"regs": reset, "nsteps": k + 1}]   # 3..5
        ref = self.model(ex, res, image, q)
        refc = self.model(ex, res, img_call, [{"regs": called, "stop_pc": 0xffff}])[0]
        if any(r is None for r in ref) or refc is None:
            res.probe("model_query_failed")
            res.digest = plan_hash(digests)
            return res
        full = ref[0]
        if full["end"] != "ret":
            # the generator is supposed to produce bounded, defined routines; anything else is not judged
            res.probe("routine_outside_model:" + full["end"])
            res.digest = plan_hash(digests)
            return res
        files = {"/sim/w/r.hex": hexfile}

        def util(argv, console=(), sigs=()):
            u = ex.call(build_request(MODE_UTIL, ["naken_util"] + argv, files, console=list(console), sigs=list(sigs), env=env, cpu_ms=15000))
            res.absorb(u)
            digests.append(u.digest())
            return u

        def sane(u, tag):
            ck = crash_key(u, tag)
            if ck is not None:
                res.viol("B:%s:abnormal-termination:%s" % (tag, u.kind()), stderr=u.stderr.decode("latin-1")[:600], tail=u.text()[-300:])
                return False
            return True

        # (1) -run: returns at the final ret, reports registers and cycles of that execution, exit status 0
        if bio is None or ref[1]["end"] != "break_io":
            u = util(["-run", "r.hex"])
            if sane(u, "-run"):
                if u.status != 0:
                    res.viol("B:-run:exit-status", got=u.status)
                self.compare(res, "-run", "final", parse_dump(u.text()), full)
                res.probe("sched:-run")
        # (2) -run -break_io
        if bio is not None and ref[1]["end"] == "break_io":
            u = util(["-break_io", "0x%x" % bio[0], "-run", "r.hex"])
            if u.kind() not in ("exit",):
                sane(u, "-break_io")
            else:
                if (u.status & 0xff) != ref[1]["break"]:
                    res.viol("B:-break_io:exit-status", got=u.status, want=ref[1]["break"], tail=u.text()[-200:])
                if "exit_calls" not in counters_dict(u):
                    res.viol("B:-break_io:run-did-not-end-at-the-write", tail=u.text()[-200:])
                res.probe("sched:-break_io")
        if bio is not None and ref[1]["end"] == "break_io":
            # the remaining schedules use the routine without the terminating I/O write
            res.digest = plan_hash(digests)
            res.nontrivial = True
            return res
        def segments(u):
            """console transcript split per command: [(command line, output)]"""
            out = []
            for seg in re.split(r"^stopped> ", u.text(), flags=re.M)[1:]:
                cmd, _, body = seg.partition("\n")
                out.append((cmd.strip(), body))
            return out

        # (3) step x n, registers (only inside the routine: what follows the final ret is not defined)
        if ref[2]["end"] == "steps":
            u = util(["r.hex"], ["step"] * n + ["registers", "quit"])
            if sane(u, "step"):
                regs_out = [b for c, b in segments(u) if c == "registers"]
                self.compare(res, "step", "after-n-steps", parse_dump(regs_out[-1]) if regs_out else None, ref[2])
                res.probe("sched:step")
        # (4) run at a speed, interrupted by SIGINT at the k-th usleep, then resumed to the end
        u = util(["r.hex"], ["speed %d" % plan["speed"], "run", "registers", "run", "registers", "quit"],
                 [{"trigger": "usleep", "k": k}])
        if sane(u, "sigint"):
            regs_out = [b for c, b in segments(u) if c == "registers"]
            parts = [None] + regs_out
            if len(regs_out) >= 2 and counters_dict(u).get("sigint_handled"):
                d1 = parse_dump(parts[1])
                if d1 is not None and full["steps"] > k + 1:
                    cand = [r for r in ref[3:6] if r["regs"][0] == d1[0][0] and r["cycles"] == d1[1]]
                    if not cand:
                        res.viol("B:sigint:state-is-not-an-instruction-boundary-of-the-reference-execution", pc="%04x" % d1[0][0], cycles=d1[1],
                                 around=[("%04x" % r["regs"][0], r["cycles"]) for r in ref[3:6]])
                    else:
                        self.compare(res, "sigint", "when-stopped", d1, cand[0])
                    self.compare(res, "sigint", "after-resume", parse_dump(parts[2]), full)
                    res.probe("sched:sigint+resume")
                    res.fault("sigint_in_run_loop")
            else:
                res.probe("sigint_not_delivered_before_the_end")
        # (4a) run interrupted by SIGINT, then single steps: an interrupt must not leave the simulator deaf to step
        m_steps = plan["steps"] % 4 + 1
        u = util(["r.hex"], ["speed %d" % plan["speed"], "run", "registers"] + ["step"] * m_steps + ["registers", "quit"],
                 [{"trigger": "usleep", "k": k}])
        if sane(u, "sigint+step"):
            regs_out = [b for c, b in segments(u) if c == "registers"]
            if len(regs_out) >= 2 and counters_dict(u).get("sigint_handled"):
                d1 = parse_dump(regs_out[0])
                cand = [r for r in ref[3:6] if d1 is not None and r["regs"][0] == d1[0][0] and r["cycles"] == d1[1]]
                if cand and cand[0]["end"] == "steps" and cand[0]["steps"] + m_steps < full["steps"]:
                    refs = self.model(ex, res, image, [{"regs": reset, "nsteps": cand[0]["steps"] + m_steps}])[0]
                    if refs is not None and refs["end"] == "steps":
                        self.compare(res, "sigint+step", "after-steps", parse_dump(regs_out[1]), refs)
                        res.probe("sched:sigint+step")
        # (4b) run with a breakpoint at an instruction boundary the execution reaches, then resume without it
        if ref[2]["end"] == "steps" and 0 < ref[2]["steps"] < full["steps"]:
            bp = ref[2]["regs"][0]
            refb = self.model(ex, res, image, [{"regs": reset, "stop_pc": bp}])[0]
            if refb is not None and refb["end"] == "stop_pc":
                u = util(["r.hex"], ["speed %d" % plan["speed"], "break 0x%x" % bp, "run", "registers", "break", "run", "registers", "quit"])
                if sane(u, "breakpoint"):
                    regs_out = [b for c, b in segments(u) if c == "registers"]
                    if len(regs_out) >= 2:
                        if "Breakpoint hit" not in u.text():
                            res.viol("B:breakpoint:not-hit", bp="%04x" % bp, tail=u.text()[-200:])
                        else:
                            self.compare(res, "breakpoint", "when-hit", parse_dump(regs_out[0]), refb)
                            self.compare(res, "breakpoint", "after-resume", parse_dump(regs_out[1]), full)
                        res.probe("sched:breakpoint+resume")
                    else:
                        res.unparsed += 1
        # (5) call start: runs until the pushed 0xffff return address is reached
        u = util(["r.hex"], ["call 0x%x" % start, "registers", "quit"])
        if sane(u, "call"):
            if refc["end"] in ("stop_pc", "ret") and refc["regs"][0] == 0xffff:
                d = parse_dump(u.text())
                if d is not None:
                    # after the function ends PC is reloaded from the reset vector
                    want = dict(refc)
                    want["regs"] = list(refc["regs"])
                    want["regs"][0] = start
                    self.compare(res, "call", "after-return", d, want)
                    m = re.search(r"Function ended\. Total cycles: (\d+)", u.text())
                    if not m:
                        res.viol("B:call:did-not-report-the-end-of-the-function", tail=u.text()[-300:])
                    elif int(m.group(1)) != refc["cycles"]:
                        res.viol("B:call:total-cycles", got=int(m.group(1)), want=refc["cycles"])
                    res.probe("sched:call")
        res.nontrivial = True
        res.digest = plan_hash(digests)
        return res

    def sample_view(self, plan):
        from vlib.framework import trim
        if "cases" in plan:
            v = dict(plan)
            v["cases"] = plan["cases"][:2] + ["... %d more cases" % max(len(plan["cases"]) - 2, 0)]
            return trim(v, 120)
        return trim(plan, 400)

    def shrink(self, plan):
        if plan["kind"] == "lockstep":
            cases = plan["cases"]
            if len(cases) > 1:
                for i in range(len(cases)):
                    yield {"kind": "lockstep", "cases": [cases[i]], "build": plan.get("build")}
                return
            c = cases[0]
            if c["nsteps"] > 1:
                d = copy.deepcopy(plan)
                d["cases"][0]["nsteps"] = c["nsteps"] - 1
                yield d
            return
        lines = plan["src"].split("\n")
        for i in range(3, len(lines) - 3):
            if lines[i].startswith("  ") and "ret" not in lines[i]:
                c = copy.deepcopy(plan)
                c["src"] = "\n".join(lines[:i] + lines[i + 1:])
                yield c
