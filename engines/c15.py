"""C15 - every simulator survives every opcode from every state,
deterministically.

Run = a batch of cases executed by the C++ engine (sim/engine_c15.cpp) inside
forked children: for a seeded (cpu, memory window, register state reached only
through set_reg/push/set_pc/reset and a prefix of steps) one step is executed
in 3-4 variants: fresh object under two different heap fills, the same object
after an unrelated history + reset, and a free-running run() interrupted by a
planned SIGINT under the simulated clock.
"""
import copy
import re

from vlib.core import *
from vlib.framework import Engine, RunResult
from vlib import progs

# cpu -> (code unit bytes, address bits of the byte address space or None, first-opcode stratification unit in bytes)
SIMS = {
    "msp430": (2, 16), "1802": (1, 16), "6502": (1, 16), "65816": (1, 24), "8008": (1, 14), "avr8": (2, 17),
    "ebpf": (8, None), "f100_l": (2, 17), "lc3": (2, 17), "mips": (4, None), "riscv": (4, None), "stm8": (1, 24),
    "tms1000": (1, 11), "tms9900": (2, 16), "z80": (1, 16),
}
# names just outside each register file (what a typo in `set` reaches)
EDGE_REGS = ["x32", "x33", "r16", "r32", "r8", "r11", "$32", "$33", "r255", "x-1", "r-1", "", "r", "x", "$", "pcc", "r1000000000000"]
REGNAMES = ["pc", "sp", "sr", "a", "x", "y", "b", "c", "d", "e", "h", "l", "f", "ix", "iy", "hl", "bc", "de", "wp", "st", "cc",
            "r0", "r1", "r2", "r3", "r4", "r5", "r6", "r7", "r8", "r9", "r10", "r11", "r12", "r13", "r14", "r15", "r16", "r26",
            "r31", "$t0", "$sp", "$ra", "$a0", "x1", "x2", "x5", "x31", "t0", "ra", "n", "z", "v", "df", "q", "p", "psr"]
VALUES = [0, 1, 2, 0x7f, 0x80, 0xff, 0x100, 0x300, 0xff00, 0x7fff, 0x8000, 0xfffe, 0xffff, 0x10000, 0x7fffffff, 0x80000000, 0xfffffffe, 0xffffffff]
# register names each simulator's set_reg() understands (what the `set` command can reach)
CPU_REGS = {
    "msp430": ["pc", "sp", "sr"] + ["r%d" % i for i in range(4, 16)],
    "1802": ["d", "df", "p", "x", "t", "q", "ie", "n", "i"] + ["r%d" % i for i in range(16)],
    "6502": ["a", "x", "y", "sr", "sp", "pc"],
    "65816": ["a", "x", "y", "sr", "pc", "sp", "db", "pb"],
    "8008": ["a", "b", "c", "d", "e", "h", "l", "sp"],
    "avr8": ["r%d" % i for i in range(32)] + ["sp", "pc"],
    "ebpf": ["r%d" % i for i in range(11)],
    "f100_l": ["a", "cr", "lsp"],
    "lc3": ["r%d" % i for i in range(8)],
    "mips": ["$%d" % i for i in range(32)] + ["$t0", "$sp", "$ra", "$a0", "$v0", "$s0"],
    "riscv": ["x%d" % i for i in range(32)] + ["t0", "sp", "ra", "a0", "s0"],
    "stm8": ["a", "x", "y", "sp", "pc", "cc"],
    "tms1000": ["a", "x", "y", "r", "o", "k"],
    "tms9900": ["r%d" % i for i in range(16)] + ["wp", "st", "pc"],
    "z80": ["a", "f", "b", "c", "d", "e", "h", "l", "ix", "iy", "sp", "pc", "bc", "de", "hl", "i", "r"],
}
# opcode bytes that select a second decode table (the byte after them is stratified too)
PREFIXES = {"z80": [0xcb, 0xdd, 0xed, 0xfd], "stm8": [0x72, 0x90, 0x91, 0x92], "65816": [], "6502": []}


class C15(Engine):
    prop = "C15"
    title = "every simulator survives every opcode from every state, deterministically"
    quick_budget = 90
    quick_runs = 12000
    thorough_budget = 1200
    variants = ("small",)
    rule = ("run i = batch of 16 cases; case = (one of the 15 simulators, 64-byte code window whose first opcode unit is stratified over "
            "all 256 byte values / a seeded 16-bit value - a quarter of the cases start from a real encoding of the instruction corpus, as "
            "assembled or with one operand bit or byte changed -, seeded operands, a data window at an address-space edge, registers set only "
            "through set_reg/push/set_pc/reset with boundary-biased values, 0-20 prefix steps) executed as one step in variants: fresh "
            "object under two different heap fills, same state after an unrelated history of 0-50 steps of another program + reset, and "
            "a free-running run() with a SIGINT planned at the k-th usleep of the simulated clock.  Monitors: ASan/UBSan, return of "
            "control inside the CPU budget, no page outside the architectural address space, equal results for variants whose "
            "pre-step snapshots are equal, run() returning without another instruction after SIGINT.  Distinct = distinct case transcript "
            "hash; non-trivial = the case executed (return value 0) in at least two variants with equal starting snapshots.")
    assumptions = ["register state is observed through dump_registers() and a hash of the Memory pages (plus a second step so that hidden state surfaces); internal fields are never poked",
                   "the opcode x state space is sampled (stratified over the first opcode unit), not enumerated",
                   "PC-versus-disassembler length agreement is checked for the three simulators that take the length from the disassembler (6502, 65816, Z80)"]
    real_components = Engine.real_components + ["all 15 Simulate* classes through cpu_list[].simulate_init, called in-process by sim/engine_c15.cpp"]

    CASES = 16

    def plan(self, rng, index):
        plan = self._plan(rng, index)
        # every third run uses the small-page build of /repo (256-byte memory pages)
        plan["build"] = "small" if index % 3 == 2 else "san"
        return plan

    def _plan(self, rng, index):
        cases = []
        names = sorted(SIMS)
        for j in range(self.CASES):
            cpu = names[(index * self.CASES + j) % len(names)]
            unit, bits = SIMS[cpu]
            top = (1 << bits) if bits else (1 << 32)
            base = rng.pick([0, 0x100, 0x200, 0x1000, 0x8000, top - 64, top - 16, top // 2 - 8]) & ~(unit * 2 - 1) & 0xffffffff
            stratum = (index * self.CASES + j) // len(names)
            code = bytearray(rng.bytes(64))
            if rng.chance(1, 2):
                # operand bytes at the edges: addresses like 0xff80 / 0x00ff / 0xffff make base+index wrap
                for i in range(1, 6):
                    if rng.chance(2, 3):
                        code[i] = rng.pick([0x00, 0xff, 0xff, 0x80, 0x7f, 0xfe, 0x01, 0xf0])
            first = stratum & 0xff
            if unit == 1:
                code[0] = first
                pf = PREFIXES.get(cpu)
                if pf and rng.chance(1, 3):
                    # prefixed instruction: the second byte is the stratified one
                    code[0] = rng.pick(pf)
                    code[1] = first
                    if cpu == "z80" and code[0] in (0xdd, 0xfd) and rng.chance(1, 3):
                        code[1] = 0xcb
                        code[3] = first
            else:
                big = progs.cpu_info(cpu)["endian"] == "big"
                word = rng.below(1 << 16) if stratum >= 256 else ((first << 8) | rng.below(256))
                hi, lo = (word >> 8) & 0xff, word & 0xff
                if unit == 2:
                    code[0:2] = bytes([hi, lo]) if big else bytes([lo, hi])
                elif unit == 4:
                    code[0:4] = bytes([hi, lo, code[2], code[3]]) if big else bytes([code[0], code[1], lo, hi])
                    if cpu == "mips" and rng.chance(1, 3):
                        # SPECIAL (R-type): the function field in the low six bits selects the operation
                        rs, rt = rng.below(32), rng.below(32)
                        rd, sh = (0, 0) if rng.chance(1, 2) else (rng.below(32), rng.below(32))
                        w32 = (rs << 21) | (rt << 16) | (rd << 11) | (sh << 6) | (stratum & 63)
                        code[0:4] = w32.to_bytes(4, "big" if big else "little")
                else:
                    code[0] = first
            enc = progs.corpus().get(cpu)
            if enc and rng.chance(1, 4):
                # a real instruction (encodings of the pinned test corpus: system/CSR, block move, long forms that seeded bytes
                # hardly ever form), as assembled or with one operand bit or byte changed
                b = bytearray(bytes.fromhex(rng.pick(enc)[1]))
                if b:
                    if rng.chance(1, 3):
                        at = rng.below(len(b))
                        b[at] = b[at] ^ (1 << rng.below(8)) if rng.chance(1, 2) else rng.pick([0x00, 0xff, 0x80, 0x7f])
                    code[0:len(b)] = b
            wins = [[base, bytes(code).hex()]]
            if rng.chance(1, 2):
                wins.append([rng.pick([0, top - 8, top - 2, 0x7ffe, 0xfffe, 0x1fe]) & 0xffffffff, rng.bytes(8).hex()])
            rnames = CPU_REGS[cpu] if rng.chance(3, 4) else (REGNAMES if rng.chance(1, 2) else EDGE_REGS)
            regs = [[rng.pick(rnames), rng.pick(VALUES) if rng.chance(3, 4) else rng.below(1 << 16)] for _ in range(rng.range(0, 6))]
            if rng.chance(1, 3):
                # a fully seeded register file: every register the simulator lets the user set (index registers at 0x80..0xff
                # are what makes base+index cross the top of the address space)
                regs = [[n, rng.pick([0xff, 0x80, 0x90, 0xfe, 0x01, 0xffff, 0x8000, 0x7f, 0x100]) if rng.chance(2, 3) else rng.pick(VALUES)]
                        for n in CPU_REGS[cpu] if n not in ("pc",)]
            pc = base // (unit if cpu in ("avr8", "lc3", "f100_l", "ebpf") else 1)
            if cpu == "ebpf":
                pc = base // 8
            pushes = [rng.pick(VALUES) for _ in range(rng.below(3))] if rng.chance(1, 4) else []
            variants = [
                {"kind": 0, "fill": 0, "seed": 1},
                {"kind": 0, "fill": rng.range(1, 3), "seed": rng.u64()},
                {"kind": 1, "fill": rng.below(4), "seed": rng.u64(), "hist_steps": rng.below(50), "hist": self.history(rng, code, cpu).hex(),
                 # the unrelated history may end with a free run that the user interrupted with Ctrl-C
                 "hist_sigint": rng.pick([1, 2, 5]) if (rng.chance(1, 3) and cpu not in ("riscv", "mips", "ebpf")) else 0},
            ]
            # (a variant that re-establishes the visible state without reset() was tried and withdrawn: simulators
            # legitimately keep architectural state that dump_registers() does not show - the TMS1000 status latch,
            # for one - so equal dumps do not imply equal starting states)
            if rng.chance(1, 3) and cpu not in ("riscv", "mips", "ebpf"):
                variants.append({"kind": 2, "fill": 0, "seed": 1, "usec": rng.pick([1, 1000, 999999, 1000000]), "sig_k": rng.pick([0, 0, 1, 2, 5, 20])})
            cases.append({"cpu": cpu, "wins": wins, "pc": pc, "regs": regs, "pushes": pushes,
                          "prefix": rng.pick([0, 0, 0, 1, 3, 20]), "variants": variants})
        return {"cases": cases}

    @staticmethod
    def history(rng, code, cpu=None):
        """Program executed on the same simulator object before the case: random bytes, or
        siblings of the case's own instruction (same leading bytes, other trailing bytes), which is
        what a decode cache or a latched prefix would confuse with it."""
        enc = progs.corpus().get(cpu) if cpu else None
        if enc and rng.chance(1, 3):
            # a stream of real instructions (what sets latches, modes and counters that random bytes rarely reach)
            out = bytearray()
            while len(out) < 64:
                out += bytes.fromhex(rng.pick(enc)[1])
            return bytes(out[:64])
        if rng.chance(1, 2):
            return rng.bytes(64)
        out = bytearray()
        while len(out) < 64:
            sib = bytearray(code[:rng.pick([2, 3, 4, 4, 6, 8])])
            keep = rng.pick([1, 1, 2, 3])
            for i in range(keep, len(sib)):
                if rng.chance(1, 2):
                    sib[i] = rng.below(256)
            out += sib
        return bytes(out[:64])

    def encode(self, cases, ids):
        w = W()
        w.u32(len(cases))
        for cid, c in zip(ids, cases):
            w.bytes(c["cpu"])
            w.u32(cid)
            w.u32(len(c["wins"]))
            for a, h in c["wins"]:
                w.u32(a)
                w.bytes(bytes.fromhex(h))
            w.u32(c["pc"])
            w.u32(len(c["regs"]))
            for n, v in c["regs"]:
                w.bytes(n)
                w.u32(v)
            w.u32(len(c["pushes"]))
            for v in c["pushes"]:
                w.u32(v)
            w.u32(c["prefix"])
            w.u8(len(c["variants"]))
            for v in c["variants"]:
                w.u8(v["kind"])
                w.u8(v["fill"])
                w.u64(v["seed"])
                w.u32(v.get("usec", 0))
                w.u32(v.get("sig_k", 0))
                w.u32(v.get("hist_steps", 0))
                w.u32(v.get("hist_sigint", 0))
                w.bytes(bytes.fromhex(v.get("hist", "")))
        return bytes(w.b)

    def run(self, ex, plan):
        res = RunResult()
        ex = self.variant(ex, plan.get("build"))
        cases = plan["cases"]
        todo = list(range(len(cases)))
        digests = []
        guard = 0
        while todo and guard < len(cases) + 2:
            guard += 1
            o = ex.call(build_request(MODE_C15, [], {}, env={"event_ceiling": 20000000}, extra=self.encode([cases[i] for i in todo], todo),
                                      cpu_ms=15000, wall_ms=120000))
            res.absorb(o)
            res.ops -= 1          # evaluations are counted per executed variant (one step from one starting state), below
            text = o.text()
            blocks = re.split(r"^@@CASE (\d+) cpu=(\S+)\n", text, flags=re.M)
            done = set()
            last_started = None
            for k in range(1, len(blocks), 3):
                cid, cpu, body = int(blocks[k]), blocks[k + 1], blocks[k + 2]
                last_started = cid
                if "@@ENDCASE %d" % cid in body:
                    done.add(cid)
                    res.ops += len(cases[cid]["variants"])
                    self.judge(res, cases[cid], body)
                    digests.append(plan_hash(body))
                    res.hashes.append(stable_hash(body))
            ck = crash_key(o, "c15")
            if ck is not None:
                cpu = cases[last_started]["cpu"] if last_started is not None else "?"
                if ck.startswith("hang"):
                    ck = "hang:step-does-not-return"
                res.viol("%s:%s" % (cpu, ck), case=trim(cases[last_started], 200) if last_started is not None else None,
                         stderr=o.stderr.decode("latin-1")[:1200])
                if last_started is not None:
                    done.add(last_started)
            todo = [i for i in todo if i not in done]
            if ck is None and todo:
                res.probe("cases_not_reported", len(todo))
                break
        res.digest = plan_hash(digests)
        return res

    def judge(self, res, case, body):
        cpu = case["cpu"]
        unit, bits = SIMS[cpu]
        res.probe("cases:" + cpu)
        if "@@NOSIM" in body:
            res.probe("nosim")
            return
        variants = re.split(r"^@@VAR (\d+) kind=(\d) fill=(\d)\n", body, flags=re.M)
        snaps = []
        for k in range(1, len(variants), 4):
            vi, kind, fill, vb = int(variants[k]), int(variants[k + 1]), int(variants[k + 2]), variants[k + 3]
            m = re.search(r"@@PRE\n(.*?)@@PREMEM memhash=(\w+) pages=(\d+) top=(\w+)\n(.*?)@@RET (-?\d+)\n(.*?)@@POSTMEM memhash=(\w+) pages=(\d+) top=(\w+)\n(.*?)@@RET2 (-?\d+)\n(.*?)@@POST2MEM memhash=(\w+) pages=(\d+) top=(\w+)", vb, re.S)
            if not m:
                res.unparsed += 1
                continue
            pre = (m.group(1), m.group(2))
            ret = int(m.group(6))
            post = (m.group(7), m.group(8))
            ret2 = int(m.group(12))
            post2 = (m.group(13), m.group(14))
            pre_top, post_top = int(m.group(4), 16), max(int(m.group(10), 16), int(m.group(16), 16))
            if bits is not None:
                limit = 1 << bits
                if post_top >= limit and pre_top < limit:
                    res.viol("%s:oob-page" % cpu, top="0x%x" % post_top, limit="0x%x" % limit, case=trim(case, 160))
            mr = re.search(r"@@RUN usleeps=(\d+) sig_at=(\d+) delivered=(\d)", vb)
            if mr:
                res.probe("run_sigint_variants")
                if mr.group(3) == "1":
                    res.fault("sigint_in_run_loop")
                    if int(mr.group(1)) != int(mr.group(2)):
                        res.viol("%s:sigint-not-obeyed-within-one-instruction" % cpu, usleeps=mr.group(1), sig_at=mr.group(2))
                continue
            md = re.search(r"@@DISASM pc=([0-9a-f]+) count=(-?\d+) text=(.*)", vb)
            if md and ret == 0 and kind == 0:
                self.length_clause(res, cpu, int(md.group(1), 16), int(md.group(2)), md.group(3).strip().lower(), m.group(7), case)
            if ret == 0:
                res.probe("executed")
            elif ret == -1:
                res.probe("illegal")
            snaps.append((kind, fill, pre, ret, post, ret2, post2))
        # repeatability among variants with identical starting snapshots
        groups = {}
        for s in snaps:
            groups.setdefault(s[2], []).append(s)
        if len(groups) > 1:
            res.probe("start_not_reproducible")
        for pre, g in groups.items():
            if len(g) < 2:
                continue
            if g[0][3] == 0:
                res.nontrivial = True
            a = g[0]
            for b in g[1:]:
                comp = None
                if a[3] != b[3]:
                    comp = "return-value"
                elif a[4][0] != b[4][0]:
                    comp = "registers"
                elif a[4][1] != b[4][1]:
                    comp = "memory"
                elif a[5] != b[5] or a[6] != b[6]:
                    comp = "second-step"
                if comp:
                    how = "history" if (a[0] in (1, 3)) != (b[0] in (1, 3)) or a[0] != b[0] else "heap-fill"
                    res.viol("%s:nonrepeatable:%s:%s" % (cpu, comp, how), a=a[4][0][-300:], b=b[4][0][-300:], rets=(a[3], b[3], a[5], b[5]), case=trim(case, 160))
                    break

    def sample_view(self, plan):
        from vlib.framework import trim
        if "cases" in plan:
            v = dict(plan)
            v["cases"] = plan["cases"][:2] + ["... %d more cases" % max(len(plan["cases"]) - 2, 0)]
            return trim(v, 120)
        return trim(plan, 400)

    # mnemonics that legitimately leave the sequential path (per listing text)
    BRANCHY = {"6502": ("bcc", "bcs", "beq", "bmi", "bne", "bpl", "bvc", "bvs", "jmp", "jsr", "rts", "rti", "brk", "bra"),
               "65816": ("bcc", "bcs", "beq", "bmi", "bne", "bpl", "bvc", "bvs", "jmp", "jsr", "rts", "rti", "brk", "bra", "brl", "jml", "jsl",
                         "rtl", "cop", "wai", "stp"),
               "z80": ("jp", "jr", "call", "ret", "reti", "retn", "rst", "djnz", "halt")}
    PCRE = {"6502": r"PC=0x([0-9a-f]+)", "65816": r"PC=0x([0-9a-f]+)", "z80": r"PC: ([0-9a-f]+)"}

    def length_clause(self, res, cpu, pc0, count, text, post_dump, case):
        """Where the simulator relies on the disassembler for instruction length, the PC after a
        non-branching instruction is the address of the next listed instruction."""
        mn = text.split(" ")[0] if text else "?"
        if count <= 0 or not text or "?" in mn or mn in self.BRANCHY[cpu] or "offset=" in text:
            return
        mp = re.search(self.PCRE[cpu], post_dump)
        if not mp:
            res.unparsed += 1
            return
        pc1 = int(mp.group(1), 16)
        mask = 0xffffff if cpu == "65816" else 0xffff
        res.probe("length_clause_checked:" + cpu)
        if pc1 == pc0:
            return          # nothing was executed (the simulator stops at opcodes it does not implement)
        if pc1 != pc0 + count and pc1 != ((pc0 + count) & mask) and pc1 != ((pc0 + count) & 0xffff):
            res.viol("%s:pc-after-step-is-not-the-next-listed-instruction" % cpu, text=text, pc=hex(pc0), listed_length=count, pc_after=hex(pc1),
                     case=trim(case, 120))

    def shrink(self, plan):
        cases = plan["cases"]
        if len(cases) > 1:
            for i in range(len(cases)):
                yield {"cases": [cases[i]], "build": plan.get("build")}
            return
        c = cases[0]
        if c["prefix"]:
            d = copy.deepcopy(plan)
            d["cases"][0]["prefix"] = 0
            yield d
        for i in range(len(c["regs"])):
            d = copy.deepcopy(plan)
            del d["cases"][0]["regs"][i]
            yield d
        if c["pushes"]:
            d = copy.deepcopy(plan)
            d["cases"][0]["pushes"] = []
            yield d
        for i in range(len(c["variants"])):
            if len(c["variants"]) > 1:
                d = copy.deepcopy(plan)
                del d["cases"][0]["variants"][i]
                yield d
        if len(c["wins"]) > 1:
            d = copy.deepcopy(plan)
            d["cases"][0]["wins"] = c["wins"][:1]
            yield d
        code = c["wins"][0][1]
        for keep in (16, 8, 4, 2):
            if len(code) > 2 * keep:
                d = copy.deepcopy(plan)
                d["cases"][0]["wins"][0][1] = code[:2 * keep]
                yield d


from vlib.framework import trim
