"""C17 - naken_util never crashes, hangs or corrupts memory on any file or
command.

Run = (1) the real naken_asm writes an object file on SimFs, (2) the simulated
disk damages it, (3) one naken_util lifetime loads it under a seeded command
line and executes a scripted console session with planned SIGINTs.
"""
import copy
import re

from vlib.core import *
from vlib.framework import Engine, RunResult
from vlib import progs, images

FORMATS = [("hex", "hex"), ("srec", "srec"), ("elf", "elf"), ("wdc", "wdc"), ("uf2", "uf2"),
           ("amiga", "amiga"), ("macho", "macho"), ("bin", "bin"), ("ti_txt", "txt")]

NO_USLEEP = ("riscv", "riscv64", "mips", "mips32", "pic32", "ebpf")

COMMANDS = ["asm", "break", "call", "clear", "disasm", "display", "dumpram", "dump_ram", "dumpram", "help", "info",
            "no_clear", "print", "print16", "print32", "push", "registers", "reg", "reset", "run", "set",
            "speed", "step", "stop", "symbols", "write", "write16", "write32", "bogus", ""]


def num(rng, big=False):
    k = rng.below(16)
    if k == 0:
        return "0xffffffff"
    if k == 1:
        return "0x7fffffff"
    if k == 2:
        return "-1"
    if k == 3:
        return "0"
    if k == 4:
        return "%xh" % rng.below(0x10000)
    if k == 5:
        return "0x%x" % rng.below(0x100)
    if k == 6:
        return "%d" % rng.below(70000)
    if k == 7:
        return "0x%x" % rng.pick([0xffff, 0x10000, 0xfffe, 0xffffff, 0x1000000, 0x80000000])
    if k == 8:
        return "0x%x" % (rng.below(0x10000) | 1)
    return "0x%x" % rng.below(0x2000)


def malformed(rng):
    return rng.pick(["0x", "zz", "12h-", "--", "-", "", "0x" + "f" * 2000, "9" * 2000, "h", "0xg", "1-2-3", "= ", "=5",
                     "a" * 2000, "0x10 0x", "-0x10", "1e5", "0x-1", "''", "\"", "%s%s%n", "\t", "0x10 -", "- 0x10"])


def rng_arg(rng, lo_hint):
    k = rng.below(12)
    a = lo_hint + rng.below(64) if rng.chance(2, 3) else rng.below(0x10000)
    if k == 0:
        return "0x%x" % a
    if k == 1:
        return "0x%x-0x%x" % (a, a + rng.below(300))
    if k == 2:
        return "0x%x-" % a
    if k == 3:
        return "-0x%x" % a
    if k == 4:
        return "0x%x-0x%x" % (a + rng.pick([1, 16, 100, 0x7000]), a)           # end < start
    if k == 5:
        return "0x%x-0xffffffff" % rng.pick([0xffffff00, 0xfffffff0, 0xffffffff])   # wrap probe, short
    if k == 6:
        return "0xffffff00-0x10"
    if k == 7:
        return malformed(rng)
    if k == 8:
        return "%d-%d" % (a, a + rng.below(64))
    if k == 9:
        return "sym_0_%x" % rng.below(4096)
    if k == 10:
        return "0x%x - 0x%x" % (a, a + 16)
    return "0x%x-0x%x" % (a, a + rng.below(0x10000))


def command(rng, cpu, lo):
    c = rng.pick(COMMANDS)
    if c in ("print", "print16", "print32", "disasm", "dumpram", "dump_ram"):
        if c == "disasm" and rng.chance(1, 4):
            return "disasm"
        return "%s %s" % (c, rng_arg(rng, lo))
    if c in ("write", "write16", "write32"):
        addr = rng.pick(["0x%x" % (lo + rng.below(32)), num(rng), malformed(rng), "sym_1_%x" % rng.below(4096)])
        vals = " ".join(num(rng) if rng.chance(7, 8) else malformed(rng) for _ in range(rng.range(0, 6)))
        return "%s %s %s" % (c, addr, vals)
    if c == "set":
        reg = rng.pick(["pc", "sp", "r5", "r15", "a", "x", "y", "sr", "r0", "hl", "t0", "x1", "c", "z", "r99", "", "q" * 300])
        if rng.chance(1, 5):
            return "set " + malformed(rng)
        form = rng.pick(["set %s=%s", "set %s = %s", "set %s %s"])
        return form % (reg, num(rng))
    if c == "clear":
        return "clear " + rng.pick(["c", "z", "n", "v", "gie", "x", "", "zzz", "r5"])
    if c == "break":
        return rng.pick(["break", "break %s" % num(rng), "break " + malformed(rng)])
    if c == "push":
        return "push " + (num(rng) if rng.chance(3, 4) else malformed(rng))
    if c == "call":
        return "call " + (("0x%x" % (lo + 2 * rng.below(8))) if rng.chance(2, 3) else malformed(rng))
    if c == "speed":
        return rng.pick(["speed", "speed 0", "speed 1", "speed 1000", "speed 1000000", "speed -1", "speed 2000000", "speed zz", "speed 0x10"])
    if c == "asm":
        # org operands that parse to an address near 2^32 make the assembled image wrap and the
        # copy loop walk 4 GiB byte by byte: minutes, not a hang, so they are kept out of the mix
        return rng.pick(["asm", "asm 0x%x" % lo, "asm " + rng.pick(["0x", "zz", "12h-", "h", "0xg", "= ", "a" * 2000, "1e5", "''", "\"", "%s%s%n", "0x10 0x"])])
    if c == "run":
        return rng.pick(["run", "run", "run 0x%x" % lo])
    if c in ("help", "info", "registers", "reg", "reset", "step", "stop", "symbols", "display", "no_clear"):
        return c if rng.chance(9, 10) else c + " extra"
    if c == "bogus":
        return rng.pick(["bogus", "quitx", "print", "write", "?", "  ", "print16", "set", "\x01\x02", "x" * 3000, "help me", "exit now"])
    return ""


class C17(Engine):
    prop = "C17"
    title = "naken_util never crashes, hangs or corrupts memory"
    quick_budget = 90
    quick_runs = 4000
    thorough_budget = 1200
    variants = ("small",)
    rule = ("run i = real naken_asm writes a seeded image in one of 8 formats (ti-txt rendered by the harness) -> simulated disk "
            "damage (cut / bit flip / byte / zeroed or duplicated 512-byte sector / header field set to an extreme / dropped, "
            "duplicated, over-long or junk text record) -> one forked naken_util lifetime with a seeded command line (68 CPU "
            "switches or none, -bin/-address/-set_pc/-break_io/-sim_serial, -disasm / -disasm_range / -run / interactive, now and then an option cut short at the end of the command line) and "
            "0-15 console commands (valid, boundary and malformed arguments), SIGINT planned during run commands, ending with quit or end of input; "
            "the first run indices also push seeded byte soup and an opcode-table sweep (every first byte x operand width, byte order, "
            "alignment, wrong-way-round and negative bounds, one disasm command per record) through each of the 68 disassemblers. "
            "Distinct = distinct seam-event hash; non-trivial = a fault fired (read fault, SIGINT) or the stored file was damaged.")
    assumptions = ["every session ends with quit or with end of input (Ctrl-D)",
                   "display is never toggled off before run on riscv/mips/ebpf (their run loops have no seam call to schedule a SIGINT at)",
                   "requested ranges are bounded to 64 Ki units except explicit wrap probes at the top of the address space"]

    NSWEEP = 68 * 4      # every CPU's disassembler over seeded byte soup, four images each (one per kind)

    def directed(self):
        return len(FORMATS) * 4 + self.NSWEEP

    def soup_plan(self, rng, k):
        """-<cpu> -disasm (or disasm in a session) over an image of seeded bytes: every disassembler meets opcodes,
        prefixes, switch tables and lengths no assembler would have produced."""
        cpus = [c["name"] for c in progs.cpus()]
        cpu = cpus[k % len(cpus)]
        n = rng.pick([64, 300, 2000])
        kind = (k // len(cpus)) % 4
        bpa = max(progs.cpu_info(cpu)["bpa"], 1)
        base = rng.pick([0, 0x100, 0x8000, 0xff00, 0xfffffe00])
        sweep = None
        if kind == 3:
            # opcode table sweep: every first byte at every alignment, each followed by three small or extreme integers
            # of every width and byte order (lengths, counts, table bounds, displacements as a decoder reads them), each
            # record listed by its own disasm command so that one swallowed range does not hide the rest
            vals = [-6, -5, -4, -2, -1, 0, 0, 1, 2, 3, 5, 8, 0x7f, -0x80, 0x7fff, -0x8000, 0x7fffffff, -0x80000000]
            out = bytearray()
            base = rng.pick([0, 0x100, 0x8000])
            sweep = []
            # (neighbouring records hold different opcodes: a decoder that steps backwards meets ordinary code and comes round again)
            for width, order, lead, align in [(w, o, l, al) for w, o in ((1, "big"), (2, "big"), (2, "little"), (4, "big"), (4, "little"))
                                              for l in range(0, 4, min(bpa, 4)) for al in (False, True)]:
                for op in range(256):
                    a, b, c = rng.pick(vals), rng.pick(vals), rng.pick(vals)
                    shape = rng.below(5)
                    if shape <= 1:
                        b, c = max(b, c), min(b, c)      # bounds the wrong way round
                    elif shape == 2:
                        a, b = -abs(a) - 1, -abs(b) - 1  # negative count / length
                    at = base + len(out) + lead
                    sweep.append("disasm 0x%x-0x%x" % (at // bpa, at // bpa + max(12 // bpa, 1)))
                    rec = bytes(lead) + bytes([op])
                    if align:
                        rec += bytes(-(at + 1) % 4)      # operands on the next 4-byte boundary (switch tables)
                    for v in (a, b, c):
                        rec += (v & ((1 << (8 * width)) - 1)).to_bytes(width, order)
                    out += rec + bytes(20 - len(rec))
            data = bytes(out)
        elif kind == 0:
            data = rng.bytes(n)
        elif kind == 1:
            data = bytes(rng.pick([0x00, 0xff, 0xaa, 0xab, 0xc4, 0x0e, 0x80, 0x7f, 0xcb, 0xdd, 0xed, 0xfd, 0x10, 0x20]) for _ in range(n))
        else:
            data = bytes((rng.below(256) if rng.chance(1, 2) else 0xff) for _ in range(n))
        src = ".%s\n.org 0x%x\n" % (cpu, base // bpa)
        for i in range(0, len(data), 16):
            src += ".db " + ", ".join("0x%02x" % b for b in data[i:i + 16]) + "\n"
        interactive = rng.chance(1, 3) or sweep is not None
        return {"fmt": "hex", "ext": "hex", "cpu": cpu, "src": src, "ti_txt": None, "damage_seed": rng.u64(), "ndamage": 0,
                "env": {"clock0": 1291231234, "heap_fill": rng.below(4), "heap_seed": rng.u64(), "stack_fill": rng.below(4),
                        "stack_seed": rng.u64(), "chunk_seed": 0},
                "faults": [], "serial": None, "name": "obj.hex",
                "argv": ["-" + cpu, "obj.hex"] + ([] if interactive else ["-disasm"]),
                "mode": "interactive" if interactive else "-disasm",
                "console": (sweep + ["quit"] if sweep is not None else
                            ["disasm", "disasm 0x%x-0x%x" % (base // bpa, base // bpa + 40), "quit"]) if interactive else [],
                "sigs": []}

    def plan(self, rng, index):
        plan = self._plan(rng, index)
        # every third run uses the small-page / small-pool build of /repo
        plan["build"] = "small" if index % 3 == 2 else "san"
        return plan

    def _plan(self, rng, index):
        nfmt = len(FORMATS) * 4
        if nfmt <= index < self.directed():
            return self.soup_plan(rng, index - nfmt)
        if index >= self.directed() and rng.chance(1, 12):
            return self.port_plan(rng)
        if index >= self.directed() and rng.chance(1, 10):
            return self.soup_plan(rng, rng.below(68 * 1000))
        fmt, ext = FORMATS[index % len(FORMATS)] if index < nfmt else rng.pick(FORMATS)
        cpu = rng.pick(images.IMAGE_CPUS) if rng.chance(2, 3) else rng.pick(progs.cpus())["name"]
        if rng.chance(1, 3):
            prog = progs.gen_program(rng, cpu=cpu if cpu in progs.corpus() else None, nstmts=rng.range(2, 10), allow_includes=False)
            cpu = prog["cpu"]
            src = progs.render(prog)
            img = None
        else:
            img = images.gen_image(rng, cpu=cpu if progs.cpu_info(cpu)["bpa"] in (1, 2, 4, 8) else "msp430", small=rng.chance(1, 2))
            if fmt in ("bin", "elf", "uf2", "amiga", "macho"):
                # contiguous formats: keep the span small
                img["segments"] = [s for s in img["segments"] if s[0] - img["segments"][0][0] < 200000]
            src = images.render_image(img)
        lo = 0
        if img:
            lo = img["segments"][0][0] // progs.cpu_info(img["cpu"])["bpa"]
        plan = {"fmt": fmt, "ext": ext, "cpu": cpu, "src": src,
                "ti_txt": images.ti_txt(img).decode("latin-1") if (fmt == "ti_txt" and img) else None,
                "damage_seed": rng.u64(), "ndamage": rng.weighted([(0, 2), (1, 6), (2, 2), (3, 1)]),
                "env": {"clock0": 1291231234, "heap_fill": rng.below(4), "heap_seed": rng.u64(), "stack_fill": rng.below(4),
                        "stack_seed": rng.u64(), "chunk_seed": rng.u64() if rng.chance(1, 3) else 0},
                "faults": [], "serial": None}
        # command line
        argv = []
        cli_cpu = cpu
        if rng.chance(5, 6):
            cli_cpu = cpu if rng.chance(3, 4) else rng.pick(progs.cpus())["name"]
            argv.append("-" + cli_cpu)
        name = "obj." + ext if rng.chance(5, 6) else "obj." + rng.pick(["hex", "srec", "txt", "uf2", "wdc", "bin", "elf", "x", ""])
        if rng.chance(1, 40):
            name = rng.pick(["firmware", "a", ".hex", "dir.d/obj", "obj"])
        plan["name"] = name
        if fmt == "bin" or rng.chance(1, 10):
            if rng.chance(2, 3):
                argv.append("-bin")
            if rng.chance(1, 2):
                argv += ["-address", rng.pick(["0", "0x100", "0xf800", "0xffff", "0x10000", "0xfffffff0", "0x7fffffff", "-1", "zz"])]
        if rng.chance(1, 5):
            argv += ["-set_pc", rng.pick(["0", "0x%x" % lo, "0xffff", "0xffffffff", "-2", "junk"])]
        if rng.chance(1, 6):
            argv += ["-break_io", rng.pick(["0", "0x10", "0x200", "0xffff", "-1"])]
        if rng.chance(1, 8):
            sin = rng.pick(["ser.in", "missing.in", ""])
            sout = rng.pick(["ser.out", "nodir/ser.out", ""])
            argv += ["-sim_serial", rng.pick(["0", "0x10", "0x200"]), sin, sout]
            plan["serial"] = rng.bytes(rng.below(20)).decode("latin-1")
        mode = rng.weighted([("interactive", 6), ("-disasm", 2), ("-disasm_range", 1), ("-run", 2)])
        if mode == "-disasm":
            argv.append("-disasm")
        elif mode == "-disasm_range":
            argv += ["-disasm_range", rng_arg(rng, lo)]
        elif mode == "-run":
            argv.append("-run")
        if rng.chance(19, 20):
            argv.append(name)
        elif rng.chance(1, 2):
            argv.append(rng.pick(["", ".", "..", "/", "nothere.hex"]))
        if rng.chance(1, 30):
            argv.append(rng.pick(["-bogus", "-address", "-sim_serial", "-set_pc", "second.hex", "-disasm_range", "-break_io", "-bin"]))
        if rng.chance(1, 12):
            # an option cut short at the very end of the command line (after the file name): 0 .. n-1 of its n arguments
            cut = rng.pick([["-sim_serial"], ["-sim_serial", "0x10"], ["-sim_serial", "0x200", "ser.in"], ["-address"], ["-set_pc"],
                            ["-break_io"], ["-disasm_range"]])
            argv += cut
            if "ser.in" in cut and plan.get("serial") is None:
                plan["serial"] = rng.bytes(rng.below(20)).decode("latin-1")
        plan["argv"] = argv
        plan["mode"] = mode
        # console
        lines = []
        sigs = []
        if mode == "interactive":
            shown = True
            for _ in range(rng.range(0, 15)):
                c = command(rng, cpu, lo)
                if c.startswith("display") and (cpu in NO_USLEEP or cli_cpu in NO_USLEEP):
                    continue
                lines.append(c)
                if c.split(" ")[0] in ("run", "call", "step", ""):
                    # Ctrl-C while the program runs; pressed again every `repeat` yields until it stops
                    sigs.append({"trigger": "during", "k": rng.pick([0, 1, 2, 5, 40, 300, 1500]), "after": len(lines),
                                 "repeat": rng.pick([7, 50, 400])})
                if c.split(" ")[0] == "asm":
                    # asm switches the console to code entry; the block always ends with a blank line
                    # (inside a block every line, "quit" included, is code by design)
                    k = rng.below(3)
                    if k == 0 and cpu in progs.corpus():
                        body = [rng.pick(progs.corpus()[cpu])[0] for _ in range(rng.range(1, 3))]
                    elif k == 1:
                        body = [rng.pick(["bogus line", ".db 1", "quit", "x" * 600, ".org 0x2000", ".include \"nothere\"", "l1:", ".db 1/0"])
                                for _ in range(rng.range(1, 3))]
                    else:
                        body = []
                    lines += body + [""]
            # told to terminate: quit, or end of input (Ctrl-D)
            lines.append("quit" if rng.chance(4, 5) else "\x04")
        elif mode == "-run":
            sigs.append({"trigger": "during", "k": rng.pick([0, 1, 5, 40, 300, 1500]), "after": 0, "repeat": rng.pick([7, 50, 400])})
        plan["console"] = lines
        plan["sigs"] = sigs
        if rng.chance(1, 10):
            plan["faults"].append({"kind": rng.pick(["read_eio", "read_eof"]), "path": name, "nth": rng.pick([0, 1, 2, 3]),
                                   "offset": rng.below(600), "errno": "EIO"})
        return plan

    def port_plan(self, rng):
        """A program that really reads and writes the simulated serial port / break_io address, run with
        every combination of present, missing and absent serial files."""
        port = rng.pick([0x10, 0x200, 0x1fe])
        body = []
        for _ in range(rng.range(2, 6)):
            body.append(rng.pick(["  mov.b &0x%x, r4", "  mov.b #65, &0x%x", "  mov.w &0x%x, r5", "  mov.w r5, &0x%x",
                                  "  add.b &0x%x, r6", "  mov.b r4, &0x%x", "  cmp.b #0, &0x%x", "  xor.w #0x5a5a, &0x%x"]) % port)
        src = ".msp430\n.org 0xf000\nstart:\n" + "\n".join(body) + "\n  jmp start\n.org 0xfffe\n.dw start\n"
        sin = rng.pick(["ser.in", "ser.in", "missing.in", ""])
        sout = rng.pick(["ser.out", "ser.out", "nodir/ser.out", ""])
        argv = ["-msp430", "-sim_serial", "0x%x" % port, sin, sout]
        if rng.chance(1, 4):
            argv += ["-break_io", "0x%x" % rng.pick([port, port + 1, 0x300])]
        mode = rng.pick(["interactive", "interactive", "-run"])
        lines, sigs = [], []
        if mode == "-run":
            argv.append("-run")
            sigs.append({"trigger": "during", "k": rng.pick([0, 3, 40, 300]), "after": 0, "repeat": rng.pick([7, 50])})
        else:
            for _ in range(rng.range(1, 8)):
                c = rng.pick(["step", "step", "", "registers", "speed 1000", "run", "print 0x%x-0x%x" % (port, port + 4), "reset"])
                lines.append(c)
                if c in ("run", "step", ""):
                    sigs.append({"trigger": "during", "k": rng.pick([0, 2, 40, 300]), "after": len(lines), "repeat": rng.pick([7, 50])})
            lines.append("quit")
        argv.append("obj.hex")
        return {"fmt": "hex", "ext": "hex", "cpu": "msp430", "src": src, "ti_txt": None, "damage_seed": rng.u64(), "ndamage": 0,
                "env": {"clock0": 1291231234, "heap_fill": rng.below(4), "heap_seed": rng.u64(), "stack_fill": rng.below(4),
                        "stack_seed": rng.u64(), "chunk_seed": 0},
                "faults": [], "serial": rng.bytes(rng.below(12)).decode("latin-1"), "name": "obj.hex", "argv": argv, "mode": mode,
                "console": lines, "sigs": sigs}

    def run(self, ex, plan):
        res = RunResult()
        ex0 = ex
        ex = self.variant(ex, plan.get("build"))
        fmt = plan["fmt"]
        tag = "%s:%s" % (fmt, plan["mode"])
        data = None
        digests = []
        if fmt == "ti_txt" and plan["ti_txt"] is not None:
            data = plan["ti_txt"].encode("latin-1")
        else:
            t = fmt if fmt != "ti_txt" else "hex"
            o = ex.call(build_request(MODE_ASM, ["naken_asm", "-type", t, "-o", "obj.out", "a.asm"],
                                      {"/sim/w/a.asm": plan["src"].encode("latin-1")}, cpu_ms=8000))
            res.absorb(o)
            digests.append(o.digest())
            for p, k, d in o.delta:
                if p == "/sim/w/obj.out" and k == 0:
                    data = d
            if data is None:
                res.probe("writer_failed")
                data = b""
        drng = Rng(plan["damage_seed"])
        descr = []
        for _ in range(plan["ndamage"]):
            data, d = images.damage(drng, data, fmt)
            descr.append(d)
        if descr and descr != ["intact"]:
            res.nontrivial = True
            for d in descr:
                res.fault("disk:" + d.split("@")[0].split("+")[0])
        argv = list(plan["argv"])
        if plan.get("build") == "small" and (len(data) > 65536 or fmt == "uf2"):
            # (a UF2 image always spans up to the filler block at 0x10ffff00: a million 256-byte pages to walk)
            # the page list of the small-page build is searched linearly: a big image is slow to load, not hung
            ex = self.variant(ex0, "san")
            res.probe("small_build_skipped_big_image")
        if plan.get("build") == "small" and "-address" in argv:
            # with 256-byte pages a whole-image walk over a 2 GiB span is eight million page look-ups: slow, not hung;
            # the small-page runs keep the image inside 16 MiB
            i = argv.index("-address")
            if i + 1 < len(argv) and argv[i + 1] in ("0x7fffffff", "0xfffffff0", "-1"):
                argv[i + 1] = "0xfff000"
        files = {"/sim/w/" + plan["name"]: data}
        if plan["serial"] is not None:
            files["/sim/w/ser.in"] = plan["serial"].encode("latin-1")
        env = dict(plan["env"])
        env["event_ceiling"] = 6000000
        env["stdout_ceiling"] = 300000
        o = ex.call(build_request(MODE_UTIL, ["naken_util"] + argv, files, plan["faults"], plan["console"],
                                  plan["sigs"], env=env, cpu_ms=8000, wall_ms=120000))
        res.absorb(o)
        digests.append(o.digest())
        res.digest = plan_hash(digests)
        ck = crash_key(o, tag)
        if ck is not None and o.kind() in ("timeout", "event-ceiling"):
            ck = self.judge_stall(o, plan, res)
        if o.kind() == "sigint-default" and counters_dict(o).get("sigint_handled", 0) == 0:
            # the first Ctrl-C of the session arrived while the default action was installed; at the
            # prompt that ends naken_util, which is fine - but not inside the run loop ("To pause it
            # just press Ctrl-C", docs/simulating.md).  Inside the loop = delivered at the loop's usleep().
            n = o.event_count
            last = [o.ring[(n - k) % len(o.ring)][0] for k in (1, 2, 3)] if n >= 3 else []
            if last == [SEAMS.index("exit"), SEAMS.index("sigint"), SEAMS.index("usleep")]:
                ck = "killed-by-first-sigint-inside-the-run-loop"
        if ck is not None:
            res.viol(ck, how=o.kind(), damage=descr, stderr=o.stderr.decode("latin-1")[:1500], tail=o.text()[-400:])
        else:
            st = o.status & 0xff
            if "-break_io" not in plan["argv"] and st not in (0, 1):
                res.viol("status:%d" % st, tail=o.text()[-300:])
            if o.kind() == "exit":
                res.probe("terminated_normally")
            if "Loaded " in o.text():
                res.probe("load_accepted")
            elif "Cannot load" in o.text() or "Error" in o.text():
                res.probe("load_rejected")
        res.probe("fmt:" + fmt)
        res.probe("mode:" + plan["mode"])
        return res

    ADDR_LINE = re.compile(r"^[ *!>]*(?:0x)?([0-9a-fA-F]+)(?=[:|])", re.M)

    def judge_stall(self, o, plan, res):
        """The process exhausted its CPU or stdout-line budget.  Decide between a hang and a
        legitimately long listing (print/disasm/dump over a range that a damaged or high-placed
        image made huge): a listing is making progress when the addresses at the start of its
        lines never go back over the whole output of the command; a loop prints the same
        addresses again, or nothing.  Returns a violation key or None."""
        pos = o.console_pos
        console = plan["console"]
        text = o.text()
        if plan["mode"] == "interactive":
            cmd = console[pos - 1].split(" ")[0] if 0 < pos <= len(console) else ("load" if pos == 0 else "after-quit")
            if cmd == "" and "\nasm> \n" in text[-3000:] + "\n":
                cmd = "asm-block"
            elif cmd == "":
                # a blank line repeats the previous command word
                prev = [c.split(" ")[0] for c in console[:pos - 1] if c.strip()]
                cmd = prev[-1] if prev else ""
        else:
            cmd = plan["mode"]
        if pos == 0 and "Type help for a list of commands." not in text:
            cmd = "load:" + plan["fmt"]
        if cmd in ("run", "call", "step", "", "-run"):
            # SIGINT is re-delivered every few yields while these execute
            return "hang:%s:not-stopped-by-repeated-sigint" % (cmd or "blank-line")
        # only the output of the command that was executing counts
        start = text.rfind("\nstopped> ") if plan["mode"] == "interactive" else 0
        out = text[max(start, 0):]
        addrs = [int(a, 16) for a in self.ADDR_LINE.findall(out)]
        if len(addrs) < 200:
            # some listings (sweet16) do not end their lines: take every "0x<addr>:" label instead
            addrs = [int(a, 16) for a in re.findall(r"0x([0-9a-fA-F]+):", out)]
        descents = sum(1 for i in range(1, len(addrs)) if addrs[i] < addrs[i - 1])
        # a command with an explicit numeric range a-b has no business far outside it: a listing that wrapped at the top
        # of the address space and carries on from 0 looks monotone for four thousand million lines
        line = console[pos - 1] if plan["mode"] == "interactive" and 0 < pos <= len(console) else ""
        if plan["mode"] == "-disasm_range" and "-disasm_range" in plan["argv"][:-1]:
            line = "disasm " + plan["argv"][plan["argv"].index("-disasm_range") + 1]
        mrange = re.match(r"^\s*\w+\s+(0x[0-9a-fA-F]+|\d+)\s*-\s*(0x[0-9a-fA-F]+|\d+)\s*$", line)
        if mrange and addrs:
            ra, rb = int(mrange.group(1), 0), int(mrange.group(2), 0)
            if ra <= rb and any(a < ra - 0x100 or a > rb + 0x100 for a in addrs[-50:]):
                return "hang:%s:listing-left-the-requested-range" % cmd
        # (an address may repeat: several listings print one line per byte of a multi-byte unit)
        if len(addrs) >= 200 and len(set(addrs)) >= 50 and descents <= 2:
            # addresses never go back (one wrap at 2^32 allowed): the listing advances through a huge range
            res.probe("long_listing_not_judged")
            return None
        return "hang:%s" % cmd

    def shrink(self, plan):
        if plan["ndamage"] > 0:
            c = copy.deepcopy(plan)
            c["ndamage"] -= 1
            yield c
        for i in range(len(plan["faults"])):
            c = copy.deepcopy(plan)
            del c["faults"][i]
            yield c
        # planned SIGINTs are never dropped: a run loop that nobody interrupts is not a hang
        n = len(plan["console"])
        if n > 40 and not plan["sigs"]:
            for keep in (plan["console"][n // 2:], plan["console"][:n // 2] + plan["console"][-1:]):
                c = copy.deepcopy(plan)
                c["console"] = keep
                yield c
        for i in range(n - 1):
            c = copy.deepcopy(plan)
            del c["console"][i]
            c["sigs"] = [dict(s, after=s["after"] - 1) if s["after"] > i + 1 else s for s in c["sigs"] if s["after"] != i + 1]
            yield c
        for i in range(len(plan["argv"])):
            c = copy.deepcopy(plan)
            del c["argv"][i]
            yield c
        c = copy.deepcopy(plan)
        if c["env"].get("chunk_seed") or c["env"].get("heap_fill") or c["env"].get("stack_fill"):
            c["env"].update({"chunk_seed": 0, "heap_fill": 0, "stack_fill": 0})
            yield c
        lines = plan["src"].split("\n")
        if len(lines) > 3 and plan["ti_txt"] is None:
            for i in range(1, len(lines)):
                c = copy.deepcopy(plan)
                c["src"] = "\n".join(lines[:i] + lines[i + 1:])
                yield c
