"""C19 - naken_util memory commands address the same bytes as loader and
simulator.

Run = one naken_util lifetime (real main(), scripted console) executing a
history of write*/print*/asm/set+step commands against a reference byte map,
checked command by command: read-your-writes, frame condition, rejection
leaves the image unchanged, simulator-fetch agreement, -address / -set_pc.
"""
import copy
import re

from vlib.core import *
from vlib.framework import Engine, RunResult
from vlib import progs

# cpu -> (bytes per address, endian, alignment) comes from corpus/cpus.json (snapshot of the pinned tree)
CPUS = ["msp430", "z80", "6502", "68000", "mips", "riscv", "avr8", "lc3", "f100_l", "propeller", "ebpf",
        "stm8", "tms9900", "1802", "65816", "8008", "arm", "pic14", "dspic", "powerpc", "cp1610", "thumb", "8051"]

# load-immediate templates for the simulator-agreement check: text, register regex, pc regex (pc in units)
SIM = {
    "msp430": ("mov.w #0x%04x, r7", 16, r" r7: 0x([0-9a-f]{4})", r" PC: 0x([0-9a-f]+)", 4),
    "6502": ("lda #0x%02x", 8, r" A=0x([0-9a-f]{2}) ", r" PC=0x([0-9a-f]+)", 2),
    "z80": ("ld a, 0x%02x", 8, r" A: ([0-9a-f]{2}) ", r" PC: ([0-9a-f]+)", 2),
    "avr8": ("ldi r17, 0x%02x", 8, r"r17: 0x([0-9a-f]{2})", r" PC: 0x([0-9a-f]+)", 2),
    "stm8": ("ld A, #$%02x", 8, r" A=0x([0-9a-f]{2}) ", r" PC=0x([0-9a-f]+)", 2),
    "1802": ("ldi 0x%02x", 8, r"\| D = ([0-9a-f]{2})", r" PC = ([0-9a-f]+)", 2),
    "65816": ("lda #0x%02x", 8, r" A=0x00([0-9a-f]{2}) ", r" PC=0x([0-9a-f]+)", 2),
    "mips": ("li $t0, 0x%04x", 16, r"\$t0: 0x([0-9a-f]{8})", r" PC: 0x([0-9a-f]+)", 4),
    "8008": ("mvi a, 0x%02x", 8, r"(?m)^a: 0x([0-9a-f]{2}) ", r"PC=0x([0-9a-f]+)", 2),
    "riscv": ("li t0, 0x%03x", 11, r"x5/t0: ([0-9a-f]{8})", r" pc: ([0-9a-f]+)", 4),
    "lc3": ("add r1, r1, #%d", 4, r" r1: 0x([0-9a-f]{4})", r"PC=0x([0-9a-f]+)", 2),
    "f100_l": ("lda #0x%04x", 16, r" A=(\d+) ", r"PC=0x([0-9a-f]+)", 4),
}

# simulators without a settable pc register: the first asm block of a session moves the PC to its origin
NO_SET_PC = ("mips", "8008", "riscv", "lc3", "f100_l")
# program counters narrower than 16 bits (a -set_pc beyond them wraps: F100-L has 15 address bits, the 8008 has 14)
PC_MASK = {"f100_l": 0x7fff, "8008": 0x3fff}
# register dumps that print the register in decimal
REG_RADIX = {"f100_l": 10}
# commands issued before the step (the template adds to the register instead of loading it)
PRELUDE = {"lc3": "set r1=0"}

# MIPS loads relative to a base register: mnemonic, width, signed
MIPS_LOADS = [("lbu", 1, False), ("lhu", 2, False), ("lb", 1, True), ("lh", 2, True), ("lw", 4, False)]
# the same loads exist on RISC-V: instruction text and the command that sets the base register
REL = {"mips": ("%s $t0, %d($t2)", "set $t2=0x%x", [-4, -8, -32768, 0, 4, 32764]),
       "riscv": ("%s t0, %d(t2)", "set t2=0x%x", [-4, -8, -2048, 0, 4, 2044])}

# load-from-memory templates (data address) for "what the simulator fetches is what write* put there"
SIMF = {
    "msp430": [("mov.w &0x%04x, r7", 16), ("mov.w 0x%04x, r7", 16), ("mov.b &0x%04x, r7", 8), ("mov.b 0x%04x, r7", 8)],
    "6502": [("lda 0x%04x", 8)],
    "z80": [("ld a, (0x%04x)", 8)],
}

# store-to-memory templates: instruction text (data address), command that puts the value in the source register
SIMW = {
    "msp430": [("mov.b r7, &0x%04x", "set r7=0x%x")],
    "6502": [("sta 0x%04x", "set a=0x%x")],
    "65816": [("sta 0x%04x", "set a=0x%x")],
    "z80": [("ld (0x%04x), a", "set a=0x%x")],
    "stm8": [("ld $%04x, A", "set a=0x%x")],
    # register-indirect word stores: the address goes into a register with set, the instruction text has no address
    "riscv": [("sw t0, 8(t1)", "set t0=0x%x", "set t1=0x%x", 8, 4)],
    "mips": [("sw $t0, 8($t1)", "set $t0=0x%x", "set $t1=0x%x", 8, 4)],
}


# return-from-subroutine steps: the return address is put on the stack with write; instruction, stack pointer command,
# byte address the address is written at relative to sp, what gets added to it
SIMR = {
    "6502": ("rts", "set sp=0x%x", 0x100 + 1, 1, 0xfd),
    "z80": ("ret", "set sp=0x%x", 0, 0, 0x4f0),
    "msp430": ("ret", "set sp=0x%x", 0, 0, 0x4f0),
}


def model_plan_addrs(plan, bpa):
    """rough size of the image a plan builds (keeps the whole-image disasm check to small images)"""
    n = len(plan["load"]["data"]) // 2 if plan["load"] else 0
    for op in plan["ops"]:
        if op["op"] == "write":
            n += op["width"] * len(op["vals"])
    return range(n)


PROMPT = re.compile(r"^(stopped|running|asm)> ?(.*)$")


def spell(rng, v, allow_neg=True):
    k = rng.below(7)
    if k == 6:
        # docs/literals.md: octal is spelled with a q postfix, so leading zeros do not change the base
        return rng.pick(["0%d", "00%d", "000%d"]) % v
    if k == 0:
        return "%d" % v
    if k == 1:
        return "0x%x" % v
    if k == 2:
        return "0x%04x" % v
    if k == 3:
        return "%xh" % v
    if k == 4 and allow_neg and 0 < v < 200:
        return "-%d" % v, (-v) & 0xffffffff
    return "0x%X" % v if rng.chance(1, 2) else "%d" % v


def spelled(rng, v, allow_neg=True):
    s = spell(rng, v, allow_neg)
    if isinstance(s, tuple):
        return s
    return s, v


class C19(Engine):
    prop = "C19"
    title = "naken_util memory commands address the same bytes as loader and simulator"
    quick_budget = 90
    quick_runs = 25000
    thorough_budget = 600
    variants = ("small",)
    rule = ("run i = one forked naken_util lifetime (real main(), scripted console) on a CPU with 1/2/4/8 bytes per address and either "
            "byte order: optional load of a seeded bin/hex/ti-txt image (with -address/-set_pc) or of an ELF from the real assembler with exported labels "
            "(also in the other byte order than the CPU's default), then 8-40 commands write/write16/write32 "
            "(1-20 values, decimal / 0x / h-suffix / negative spellings, aligned and - on alignment-1 CPUs - unaligned), "
            "print/print16/print32 over padded ranges in the forms a-b, a, a-, asm blocks of corpus instructions with known encodings, "
            "ranges and write addresses by symbol name, a second .org inside an asm block with a write into the gap, set pc + step over a "
            "load-immediate, a load from memory or a store placed with write (12 simulators), run into a breakpoint, and malformed commands that must be rejected; checked against a "
            "reference byte map after every print and by a final sweep over every touched 256-byte block and its neighbours. "
            "Distinct = distinct seam-event hash; non-trivial = at least two state-changing commands shared the image before an observation.")
    assumptions = ["range-end inclusiveness is not assumed: only printed lines are compared and ranges are padded",
                   "-address is compared on CPUs with one byte per address only (the documentation does not define its unit)",
                   "write* stopping at a malformed value is modelled as the prefix it reports, commands are not assumed atomic"]

    def plan(self, rng, index):
        plan = self._plan(rng, index)
        # every third run uses the small-page / small-pool build of /repo
        plan["build"] = "small" if index % 3 == 2 else "san"
        return plan

    def _plan(self, rng, index):
        cpu = CPUS[index % len(CPUS)] if index < 2 * len(CPUS) else rng.pick(CPUS)
        info = progs.cpu_info(cpu)
        bpa, align = info["bpa"], info["align"]
        base = rng.pick([0, 0x100, 0x200, 0x1000, 0xf800, 0xff00]) if rng.chance(4, 5) else rng.pick([0x10000, 0xfffe0, 0xfffff0 // bpa])
        if cpu == "mips" and rng.chance(1, 4):
            base = rng.pick([0x9d000000, 0x80001000, 0xbfc00000, 0x7ffff000])      # kseg0/kseg1 flash and RAM of a PIC32/MIPS part
        plan = {"cpu": cpu, "load": None, "ops": [], "env": {"heap_fill": rng.below(4), "heap_seed": rng.u64(),
                                                             "stack_fill": rng.below(4), "stack_seed": rng.u64()}}
        if rng.chance(1, 2):
            n = rng.range(1, 300)
            addr = base * bpa if rng.chance(2, 3) else rng.pick([0, 0x40]) * bpa
            fmt = rng.pick(["bin", "hex", "hex", "ti_txt"])
            if fmt == "ti_txt" and addr + n > 0x10000:
                fmt = "hex"
            load = {"fmt": fmt, "addr": addr, "data": rng.bytes(n).hex(), "set_pc": None, "ending": rng.pick(["q\n", "q", "q\r\n"])}
            if rng.chance(1, 4) and bpa in (1, 2, 4) and addr + n < 0x7fff0000:
                # an ELF from the real assembler (separate lifetime) with exported labels: range arguments by symbol name
                n += (-n) % max(align, bpa)
                load["data"] = rng.bytes(n).hex()
                load["fmt"] = "elf"
                step = max(align, bpa)
                offs = sorted(set(rng.below(n // step + 1) * step for _ in range(rng.range(1, 4))))
                load["syms"] = [["s%d_%x" % (j, rng.below(1 << 16)), o] for j, o in enumerate(offs) if o < n]
                if rng.chance(1, 3):
                    # the other byte order than the CPU's default (.big_endian / .little_endian): the ELF header carries it
                    load["endian"] = "little" if info["endian"] == "big" else "big"
            if rng.chance(1, 3) and cpu in SIM:
                load["set_pc"] = (addr // bpa) + rng.below(8) * (2 if align >= 2 and bpa == 1 else 1)
            if fmt == "bin" and bpa != 1:
                load["addr"] = 0
            plan["load"] = load
        nops = rng.range(8, 40) if index >= 2 * len(CPUS) else rng.range(6, 14)
        used_asm = False
        for _ in range(nops):
            k = rng.below(20)
            unit = base + rng.below(0x80)
            if k < 8:
                width = rng.pick([1, 1, 2, 4])
                a = unit
                byte_addr = a * bpa
                need = 1
                if width == 2:
                    need = 2 if (align - 1) & 1 else 1
                if width == 4:
                    need = align
                if need > 1 and byte_addr % need:
                    byte_addr += need - byte_addr % need
                    if byte_addr % bpa:
                        continue
                    a = byte_addr // bpa
                if align == 1 and width > 1 and bpa == 1 and rng.chance(1, 2):
                    a |= 1     # unaligned, allowed on alignment-1 CPUs
                nv = rng.range(1, 20) if rng.chance(1, 4) else rng.range(1, 4)
                vals = []
                for _ in range(nv):
                    v = rng.below(1 << (8 * width)) if rng.chance(3, 4) else rng.below(1 << 32)
                    vals.append(spelled(rng, v))
                wop = {"op": "write", "width": width, "addr": spelled(rng, a, False), "vals": vals}
                syms = (plan["load"] or {}).get("syms")
                if syms and rng.chance(1, 3):
                    name, off = rng.pick(syms)
                    sb = plan["load"]["addr"] + off
                    if sb % bpa == 0 and (width == 1 or sb % (align if width == 4 else min(align, 2)) == 0):
                        wop["addr"] = [name, sb // bpa]
                plan["ops"].append(wop)
            elif k < 13:
                width = rng.pick([1, 1, 2, 4])
                lo = base + rng.below(0x60)
                if width > 1:
                    need = (2 if (align - 1) & 1 else 1) if width == 2 else align
                    b = lo * bpa
                    if need > 1 and b % need:
                        b += need - b % need
                        if b % bpa:
                            continue
                        lo = b // bpa
                hi = lo + rng.range(1, 0x50)
                pop = {"op": "print", "width": width, "lo": lo, "hi": hi, "form": rng.pick(["a-b", "a-b", "a-b", "a", "a - b"])}
                syms = (plan["load"] or {}).get("syms")
                if syms and rng.chance(1, 2):
                    name, off = rng.pick(syms)
                    sb = plan["load"]["addr"] + off
                    if sb % bpa == 0 and (width == 1 or sb % (align if width == 4 else min(align, 2)) == 0):
                        pop.update({"lo": sb // bpa, "hi": sb // bpa + rng.range(1, 0x50), "lo_sym": name})
                        others = [(n2, o2) for n2, o2 in syms if o2 > off]
                        if others and rng.chance(1, 2):
                            n2, o2 = rng.pick(others)
                            pop.update({"hi": (plan["load"]["addr"] + o2) // bpa, "hi_sym": n2})
                plan["ops"].append(pop)
            elif k < 15 and cpu in progs.corpus():
                pi = [c for c in progs.corpus()[cpu] if c[2] == 1 and c[1] and ":" not in c[0]]
                if pi:
                    lines = [rng.pick(pi) for _ in range(rng.range(1, 4))]
                    org = None
                    if not used_asm or rng.chance(1, 2):
                        a = base + 0x100 + rng.below(0x40) * (max(align // bpa, 1) if bpa < align else 1)
                        b = a * bpa
                        if b % align:
                            b += align - b % align
                        a = b // bpa
                        org = a
                    used_asm = True
                    aop = {"op": "asm", "org": org, "lines": [[l[0], l[1]] for l in lines]}
                    if org is not None and rng.chance(1, 3):
                        # a second .org inside the block: what lies between the two pieces is not the block's business
                        more = [rng.pick(pi) for _ in range(rng.range(1, 2))]
                        first_len = sum(len(l[1]) // 2 for l in lines)
                        gap_b = org * bpa + first_len + align * rng.range(1, 4)
                        gap_b += (-gap_b) % max(align, bpa)
                        org2_b = gap_b + max(align, bpa) * rng.range(1, 6)
                        aop["org2"] = org2_b // bpa
                        aop["lines2"] = [[l[0], l[1]] for l in more]
                        plan["ops"].append({"op": "write", "width": 1, "addr": ["0x%x" % (gap_b // bpa), gap_b // bpa],
                                            "vals": [["0x%x" % v, v] for v in (rng.range(1, 255), rng.range(1, 255))]})
                    plan["ops"].append(aop)
            elif k == 15 and cpu in SIM:
                tmpl, bits, rre, pcre, ilen = SIM[cpu]
                a = (base & 0x3fff) + 0x300 + rng.below(0x20) * max(align, 2) // bpa
                if cpu == "8008":
                    a &= 0x1fff          # 14-bit program counter
                if cpu in REL and rng.chance(1, 2):
                    mn, wd, sg = rng.pick(MIPS_LOADS)
                    off = rng.pick(REL[cpu][2] + [-2 if wd <= 2 else -4, -1 if wd == 1 else -4])
                    d = (a & 0xffff0000) + 0x8000 + 4 * rng.below(64) + (rng.below(4 // wd) * wd if wd < 4 else 0)
                    plan["ops"].append({"op": "simstep", "addr": a, "imm": 0, "rel": [mn, wd, sg, off, d, list(rng.bytes(4))]})
                elif cpu not in NO_SET_PC and rng.chance(1, 5):
                    # run into a breakpoint: the address given to break is in the same units as every other address
                    n = rng.range(2, 6)
                    plan["ops"].append({"op": "breakrun", "addr": a, "imms": [rng.below(1 << bits) for _ in range(n)], "k": rng.range(1, n - 1)})
                elif cpu in SIMR and rng.chance(1, 6):
                    # what write puts on the stack is where the return instruction continues
                    plan["ops"].append({"op": "simstep", "addr": a, "imm": 0, "ret": 0x1000 + 2 * rng.below(0x3000)})
                elif cpu in SIMW and rng.chance(1, 3):
                    # what the simulator stores is what print shows afterwards - also at the top and bottom of the 64 KiB space
                    d = rng.pick([0xffff, 0xfffe, 0xff00, 0x240 + rng.below(64), 0x3c0 + rng.below(64)])
                    if cpu in NO_SET_PC:
                        d = rng.pick([0xfffc, 0xff00, 0x240 + 4 * rng.below(16), 0x3c0 + 4 * rng.below(16)]) + (a & 0xffff0000)
                    plan["ops"].append({"op": "simstep", "addr": a, "imm": rng.below(256), "store": 0, "daddr": d})
                elif cpu in SIMF and rng.chance(1, 2):
                    f = rng.below(len(SIMF[cpu]))
                    d = 0x240 + 2 * rng.below(32) + (a & 0x3000)
                    plan["ops"].append({"op": "simstep", "addr": a, "imm": rng.below(1 << SIMF[cpu][f][1]), "fetch": f, "daddr": d})
                else:
                    plan["ops"].append({"op": "simstep", "addr": a, "imm": rng.below(1 << bits)})
            elif k < 19 and rng.chance(1, 4):
                # a blank line repeats the previous command word (readline build); after a write or print
                # that is a command without arguments, which must change nothing
                plan["ops"].append({"op": "blank"})
            elif k < 19:
                plan["ops"].append({"op": "bad", "line": rng.pick([
                    "write", "write16", "write32", "print", "bogus 1 2", "write zz 5", "write 0x10", "writ 0x10 5",
                    "write16 qq", "print32 zz", "print 0x10 0x20", "print --", "write 12g 5", "write 0x10 5g", "write 0x10 zz 6",
                    "write16 0x10 -", "write 0x", "print16 1-2-3", "write32 0x10 0xzz", "help 5", "write8 0x10 5"])})
            else:
                plan["ops"].append({"op": "print", "width": 1, "lo": base, "hi": base + 0x100, "form": "a-b"})
        return plan

    # ------------------------------------------------------------------
    def run(self, ex, plan):
        res = RunResult()
        ex = self.variant(ex, plan.get("build"))
        cpu = plan["cpu"]
        info = progs.cpu_info(cpu)
        bpa, align, big = info["bpa"], info["align"], info["endian"] == "big"
        model = {}
        files = {}
        argv = ["naken_util", "-" + cpu]
        digests = []
        load = plan["load"]
        low_addr = None
        if load:
            data = bytes.fromhex(load["data"])
            if load["fmt"] == "elf":
                from vlib import images
                img = {"cpu": cpu, "segments": [(load["addr"], data)], "entry": None,
                       "exports": [(nm, load["addr"] + off) for nm, off in load["syms"]]}
                text = images.render_image(img)
                if load.get("endian"):
                    first, rest = text.split("\n", 1)
                    text = first + "\n.%s_endian\n" % load["endian"] + rest
                    big = load["endian"] == "big"
                    res.probe("elf_other_byte_order")
                o = ex.call(build_request(MODE_ASM, ["naken_asm", "-type", "elf", "-o", "img.elf", "a.asm"],
                                          {"/sim/w/a.asm": text.encode()}))
                res.absorb(o)
                digests.append(o.digest())
                elf = None
                for p, k, d in o.delta:
                    if p == "/sim/w/img.elf" and k == 0:
                        elf = d
                if elf is None:
                    res.probe("elf_not_written")
                    elf = b""
                    data = b""
                files["/sim/w/img.elf"] = elf
                argv.append("img.elf")
            elif load["fmt"] == "bin":
                files["/sim/w/img.bin"] = data
                argv += ["-bin"]
                if load["addr"]:
                    argv += ["-address", "0x%x" % load["addr"]]
                argv.append("img.bin")
            elif load["fmt"] == "ti_txt":
                # TI-TXT written by the harness: @ADDR, 16 bytes per line, terminated by q
                out = ["@%04X" % load["addr"]]
                for i in range(0, len(data), 16):
                    out.append(" ".join("%02X" % b for b in data[i:i + 16]))
                files["/sim/w/img.txt"] = ("\n".join(out) + "\n" + load.get("ending", "q\n")).encode()
                argv.append("img.txt")
            else:
                # Intel HEX written by the harness from the published format
                out = []
                a = load["addr"]
                upper = None
                for i in range(0, len(data), 16):
                    chunk = data[i:i + 16]
                    ad = a + i
                    if (ad >> 16) != upper:
                        upper = ad >> 16
                        rec = bytes([2, 0, 0, 4, (upper >> 8) & 0xff, upper & 0xff])
                        out.append(":" + rec.hex().upper() + "%02X" % ((-sum(rec)) & 0xff))
                    if (ad & 0xffff) + len(chunk) > 0x10000:
                        chunk = chunk[:0x10000 - (ad & 0xffff)]
                        data = data[:i + len(chunk)]
                    rec = bytes([len(chunk), (ad >> 8) & 0xff, ad & 0xff, 0]) + chunk
                    out.append(":" + rec.hex().upper() + "%02X" % ((-sum(rec)) & 0xff))
                out.append(":00000001FF")
                files["/sim/w/img.hex"] = ("\n".join(out) + "\n").encode()
                argv.append("img.hex")
            for i, b in enumerate(data):
                model[load["addr"] + i] = b
            low_addr = load["addr"]
            if load["set_pc"] is not None:
                argv[1:1] = ["-set_pc", "0x%x" % load["set_pc"]]

        # instruction bytes for simstep ops come from the real assembler (separate lifetime)
        sim_bytes = {}
        for i, op in enumerate(plan["ops"]):
            if op["op"] == "breakrun":
                src = ".%s\n.org 0\n" % cpu + "".join("  %s\n" % (SIM[cpu][0] % v) for v in op["imms"])
                o = ex.call(build_request(MODE_ASM, ["naken_asm", "-type", "bin", "-o", "i.bin", "a.asm"], {"/sim/w/a.asm": src.encode()}))
                res.absorb(o)
                digests.append(o.digest())
                for p, k, d in o.delta:
                    if p == "/sim/w/i.bin" and k == 0 and len(d) == SIM[cpu][4] * len(op["imms"]):
                        sim_bytes[i] = d
            if op["op"] == "simstep":
                tmpl = SIM[cpu][0]
                src = ".%s\n.org 0\n  %s\n" % (cpu, tmpl % op["imm"])
                if "rel" in op:
                    mn, wd, sg, off, d, bs = op["rel"]
                    src = ".%s\n.org 0x%x\n  %s\n" % (cpu, op["addr"], REL[cpu][0] % (mn, off))
                if "fetch" in op:
                    # position dependent (symbolic mode): assembled where it will be placed
                    src = ".%s\n.org 0x%x\n  %s\n" % (cpu, op["addr"], SIMF[cpu][op["fetch"]][0] % op["daddr"])
                if "ret" in op:
                    src = ".%s\n.org 0x%x\n  %s\n" % (cpu, op["addr"], SIMR[cpu][0])
                if "store" in op:
                    tw = SIMW[cpu][op["store"]]
                    src = ".%s\n.org 0x%x\n  %s\n" % (cpu, op["addr"], tw[0] % op["daddr"] if len(tw) == 2 else tw[0])
                o = ex.call(build_request(MODE_ASM, ["naken_asm", "-type", "bin", "-o", "i.bin", "a.asm"], {"/sim/w/a.asm": src.encode()}))
                res.absorb(o)
                digests.append(o.digest())
                for p, k, d in o.delta:
                    if p == "/sim/w/i.bin" and k == 0:
                        sim_bytes[i] = d

        console = []
        expect = []          # per console line: (kind, payload); the model is advanced while evaluating
        if load and load["set_pc"] is not None:
            console.append("registers")
            expect.append(("set_pc", load["set_pc"]))
        touched = set([(0x10 * bpa) >> 8])       # malformed commands aim at unit 0x10
        next_org = [None]

        def touch(addr, n):
            for j in range(n):
                touched.add(((addr + j) & 0xffffffff) >> 8)

        asm_seen = [False]
        for i, op in enumerate(plan["ops"]):
            if op["op"] == "asm":
                asm_seen[0] = True
            if op["op"] == "write":
                cmd = {1: "write", 2: "write16", 4: "write32"}[op["width"]]
                a_text, a = op["addr"]
                if a_text[:1] == "s" and "_" in a_text:
                    res.probe("write_by_symbol")
                console.append("%s %s %s" % (cmd, a_text, " ".join(t for t, _ in op["vals"])))
                expect.append(("write", (op["width"], a, [v for _, v in op["vals"]])))
                touch(a * bpa, op["width"] * len(op["vals"]))
            elif op["op"] == "print":
                cmd = {1: "print", 2: "print16", 4: "print32"}[op["width"]]
                form = op["form"]
                lo_t = op.get("lo_sym") or "0x%x" % op["lo"]
                hi_t = op.get("hi_sym") or "0x%x" % op["hi"]
                if form == "a-b":
                    arg = "%s-%s" % (lo_t, hi_t)
                elif form == "a - b":
                    arg = "%s - %s" % (lo_t, hi_t)
                else:
                    arg = lo_t
                if "lo_sym" in op:
                    res.probe("print_by_symbol")
                console.append("%s %s" % (cmd, arg))
                lo_b = op["lo"] * bpa
                hi_b = (op["hi"] - 1) * bpa if form != "a" else lo_b + 64
                expect.append(("print", (op["width"], lo_b, hi_b)))
            elif op["op"] == "asm":
                org = op["org"]
                console.append("asm" + (" 0x%x" % org if org is not None else ""))
                expect.append(("none", None))
                for text, hx in op["lines"]:
                    console.append(text)
                    expect.append(("none", None))
                blob = b"".join(bytes.fromhex(hx) for _, hx in op["lines"])
                if org is not None:
                    start_b = org * bpa
                elif next_org[0] is not None:
                    start_b = next_org[0]
                else:
                    start_b = 0
                next_org[0] = start_b + len(blob)
                pieces = [(start_b, blob)]
                if "org2" in op:
                    console.append(".org 0x%x" % op["org2"])
                    expect.append(("none", None))
                    for text, hx in op["lines2"]:
                        console.append(text)
                        expect.append(("none", None))
                    blob2 = b"".join(bytes.fromhex(hx) for _, hx in op["lines2"])
                    pieces.append((op["org2"] * bpa, blob2))
                    next_org[0] = op["org2"] * bpa + len(blob2)
                    touch(op["org2"] * bpa, len(blob2))
                console.append("")
                expect.append(("asm-end", pieces))
                touch(start_b, len(blob))
                console.append("print 0x%x-0x%x" % (start_b // bpa, (start_b + len(blob)) // bpa + 2))
                expect.append(("print", (1, start_b, start_b + len(blob) + bpa)))
            elif op["op"] == "simstep":
                if i not in sim_bytes or (load and load.get("endian")):
                    # (instruction bytes come from an assembly in the CPU's default byte order: not for an image that declares the other)
                    continue
                mark, mark_e = len(console), len(expect)
                blob = sim_bytes[i]
                a = op["addr"]
                if "rel" in op:
                    mn, wd, sg, off, d, bs = op["rel"]
                    console.append("write 0x%x %s" % (d, " ".join("0x%02x" % b for b in bs)))
                    expect.append(("write", (1, d, list(bs))))
                    touch(d * bpa, 4)
                    console.append(REL[cpu][1] % ((d - off) & 0xffffffff))
                    expect.append(("none", None))
                    v = int.from_bytes(bytes(bs[:wd]), "big" if big else "little")
                    if sg and v & (1 << (8 * wd - 1)):
                        v |= 0xffffffff & ~((1 << (8 * wd)) - 1)
                    op = dict(op, imm=v)
                if "ret" in op:
                    ins, spcmd, rel, plus, spv = SIMR[cpu]
                    at = spv + rel
                    console.append(spcmd % spv)
                    expect.append(("none", None))
                    console.append("write 0x%x 0x%02x 0x%02x" % (at, op["ret"] & 0xff, op["ret"] >> 8))
                    expect.append(("write", (1, at, [op["ret"] & 0xff, op["ret"] >> 8])))
                    touch(at * bpa, 2)
                    console.append("write 0x%x %s" % (a, " ".join("0x%02x" % b for b in blob)))
                    expect.append(("write", (1, a, list(blob))))
                    touch(a * bpa, len(blob))
                    console.append("set pc=0x%x" % a)
                    expect.append(("none", None))
                    console.append("step")
                    expect.append(("simret", (a, (op["ret"] + plus) & 0xffff)))
                    continue
                if "store" in op:
                    if op["daddr"] <= a + len(blob) + 4 and op["daddr"] + 4 >= a:
                        continue         # (never over its own instruction)
                    tw = SIMW[cpu][op["store"]]
                    width = 1
                    if len(tw) > 2:
                        # register-indirect store on a simulator without a settable pc: the first asm block of the session puts
                        # the PC on the instruction (as for the load-immediate steps)
                        if asm_seen[0] or op["daddr"] % 4:
                            continue
                        asm_seen[0] = True
                        width = tw[4]
                        console.append("asm 0x%x" % a)
                        expect.append(("none", None))
                        console.append("  nop")
                        expect.append(("none", None))
                        console.append("")
                        expect.append(("none", None))
                        console.append(tw[2] % ((op["daddr"] - tw[3]) & 0xffffffff))
                        expect.append(("none", None))
                    console.append(tw[1] % op["imm"])
                    expect.append(("none", None))
                    console.append("write 0x%x %s" % (a, " ".join("0x%02x" % b for b in blob)))
                    expect.append(("write", (1, a, list(blob))))
                    touch(a * bpa, len(blob))
                    touch(op["daddr"] * bpa, width)
                    if len(tw) == 2:
                        console.append("set pc=0x%x" % a)
                        expect.append(("none", None))
                    console.append("step")
                    expect.append(("simstore", (a, op["daddr"], op["imm"], len(blob), width)))
                    continue
                if "fetch" in op:
                    w = 2 if SIMF[cpu][op["fetch"]][1] == 16 else 1
                    console.append("%s 0x%x 0x%x" % ("write16" if w == 2 else "write", op["daddr"], op["imm"]))
                    expect.append(("write", (w, op["daddr"], [op["imm"]])))
                    touch(op["daddr"] * bpa, w)
                console.append("write 0x%x %s" % (a, " ".join("0x%02x" % b for b in blob)))
                expect.append(("write", (1, a, list(blob))))
                touch(a * bpa, len(blob))
                if cpu in NO_SET_PC:
                    # these simulators have no settable pc register; the first asm block of a session moves the
                    # PC to its origin, so a block at the instruction's address does it once (the instruction the
                    # simulator must fetch is the one written over the block afterwards)
                    if asm_seen[0]:
                        console[:] = console[:mark]
                        expect[:] = expect[:mark_e]
                        continue
                    asm_seen[0] = True
                    console.append("asm 0x%x" % a)
                    expect.append(("none", None))
                    console.append("  nop" if cpu == "mips" else "  " + SIM[cpu][0] % ((op["imm"] + 1) & ((1 << SIM[cpu][1]) - 1)))
                    expect.append(("none", None))
                    console.append("")
                    expect.append(("none", None))
                    console.append("write 0x%x %s" % (a, " ".join("0x%02x" % b for b in blob)))
                    expect.append(("write", (1, a, list(blob))))
                    if cpu in PRELUDE:
                        console.append(PRELUDE[cpu])
                        expect.append(("none", None))
                    console.append("step")
                else:
                    console.append("set pc=0x%x" % a)
                    expect.append(("none", None))
                    console.append("step")
                expect.append(("simstep", (a, op["imm"], len(blob))))
            elif op["op"] == "breakrun":
                if i not in sim_bytes or (load and load.get("endian")):
                    continue
                blob = sim_bytes[i]
                a = op["addr"]
                ilen = SIM[cpu][4]
                bp = a + op["k"] * ilen // bpa
                console.append("write 0x%x %s" % (a, " ".join("0x%02x" % b for b in blob)))
                expect.append(("write", (1, a, list(blob))))
                touch(a * bpa, len(blob))
                console.append("break 0x%x" % bp)
                expect.append(("none", None))
                console.append("set pc=0x%x" % a)
                expect.append(("none", None))
                console.append("run")
                expect.append(("breakrun", (bp, op["imms"][op["k"] - 1])))
                console.append("break")
                expect.append(("none", None))
            elif op["op"] == "bad":
                console.append(op["line"])
                expect.append(("bad", op["line"]))
            elif op["op"] == "blank":
                if console and console[-1].split(" ")[0] in ("write", "write16", "write32", "print", "print16", "print32"):
                    console.append("")
                    expect.append(("blank", console[-2]))
        # final frame sweep: every touched 256-byte block and its neighbours
        if load:
            for a in model:
                touched.add(a >> 8)
        blocks = set()
        for t in touched:
            blocks.update([t - 1, t, t + 1])
        sweep = sorted(b for b in blocks if 0 <= b < (1 << 24))
        for b in sweep:
            lo_u = (b << 8) // bpa
            hi_u = ((b + 1) << 8) // bpa
            console.append("print 0x%x-0x%x" % (lo_u, hi_u))
            expect.append(("sweep", (b << 8, (b + 1) << 8)))
        if cpu == "msp430" and len(model_plan_addrs(plan, bpa)) < 20000 and not (load and load.get("endian")):
            # `disasm` without a range lists the whole image: every word it shows must be what is there,
            # and every byte that was written must be shown
            console.append("disasm")
            expect.append(("disasm-all", None))
        console.append("quit")
        expect.append(("quit", None))

        env = dict(plan["env"])
        env["event_ceiling"] = 3000000
        o = ex.call(build_request(MODE_UTIL, argv, files, console=console, env=env, cpu_ms=10000))
        res.absorb(o)
        digests.append(o.digest())
        res.digest = plan_hash(digests)
        if len([1 for op in plan["ops"] if op["op"] in ("write", "asm", "simstep")]) >= 2:
            res.nontrivial = True
        ck = crash_key(o, "c19")
        if ck is not None:
            res.probe("abnormal_termination_left_to_C17")
            res.viol("crash:" + ck, stderr=o.stderr.decode("latin-1")[:800], tail=o.text()[-300:])
            return res

        # split transcript by console command
        text = o.text()
        lines = text.split("\n")
        segs = []
        cur = None
        for l in lines:
            m = PROMPT.match(l)
            if m and len(segs) < len(console) and m.group(2).strip() == console[len(segs)].strip():
                cur = []
                segs.append(cur)
            elif cur is not None:
                cur.append(l)
        if len(segs) != len(console):
            # every command of the script is echoed after a prompt; a transcript that stops short means the session ended
            # before its quit (the process exited inside a command)
            res.viol("session:ended-before-quit", status=o.status, reached=console[len(segs) - 1] if segs else "(load)",
                     tail=text[-300:])
            return res
        if load:
            m = re.search(r"Loaded \S+ of type (\w+) / (\S+) from 0x([0-9a-f]+) to 0x([0-9a-f]+)", text)
            if not m:
                if "Cannot load" in text:
                    res.viol("load:well-formed-%s-rejected" % load["fmt"], tail=text[-300:])
                return res
            if bpa == 1 or load["fmt"] == "hex":
                if int(m.group(3), 16) != load["addr"] or int(m.group(4), 16) != load["addr"] + len(data) - 1:
                    res.viol("load:%s-range" % load["fmt"], got=m.group(0), want="0x%x..0x%x" % (load["addr"], load["addr"] + len(data) - 1))

        pending = set()      # byte addresses written since they were last observed

        def wr(addr, b):
            model[addr & 0xffffffff] = b
            pending.add(addr & 0xffffffff)

        def put(addr, v, width):
            bs = [(v >> (8 * j)) & 0xff for j in range(width)]
            if big:
                bs.reverse()
            for j, b in enumerate(bs):
                wr(addr + j, b)

        def parse_print(seg, width):
            """-> list of (byte_addr, value) ; None if shape unknown"""
            out = []
            per = {1: 16, 2: 8, 4: 4}[width]
            gw = {1: 3, 2: 5, 4: 9}[width]
            for l in seg:
                if not l.strip():
                    continue
                m = re.match(r"^0x([0-9a-f]+):", l)
                if not m:
                    return None
                units = int(m.group(1), 16)
                rest = l[m.end():]
                for g in range(per):
                    tok = rest[g * gw:(g + 1) * gw]
                    if len(tok) == gw and tok[0] == " " and re.match(r"^[0-9a-f]+$", tok[1:]):
                        out.append((units * bpa + g * width, int(tok[1:], 16)))
                    else:
                        break
            return out

        def value_at(a, width):
            bs = [model.get(a + j, 0) for j in range(width)]
            if big:
                bs.reverse()
            return sum(b << (8 * j) for j, b in enumerate(bs))

        names = {1: "print", 2: "print16", 4: "print32"}
        for idx, (kind, payload) in enumerate(expect):
            seg = segs[idx]
            joined = "\n".join(seg)
            if kind == "write":
                width, a, vals = payload
                addr = a * bpa
                for v in vals:
                    put(addr, v, width)
                    addr += width
                m = re.search(r"Wrote (\d+) (bytes|int16's|int32's) starting at address 0x([0-9a-f]+)", joined)
                if not m:
                    res.viol("write%d:rejected-valid-command" % (8 * width), cmd=console[idx], out=joined[:200])
                    continue
                if int(m.group(1)) != len(vals):
                    res.viol("write%d:count" % (8 * width), cmd=console[idx], out=joined[:200])
                if int(m.group(3), 16) != a & 0xffffffff:
                    res.viol("write%d:reported-address" % (8 * width), cmd=console[idx], out=joined[:200])
            elif kind in ("print", "sweep"):
                if kind == "print":
                    width, lo_b, hi_b = payload
                    must = set(a for a in pending if lo_b <= a < hi_b - 4)
                else:
                    width, must = 1, set()
                    lo_b, hi_b = payload
                got = parse_print(seg, width)
                if got is None:
                    if "must start on" in joined:
                        res.probe("print_alignment_rejected")
                        continue
                    res.unparsed += 1
                    res.probe("print_unparsed")
                    continue
                seen = set()
                for a, v in got:
                    for j in range(width):
                        seen.add(a + j)
                    want = value_at(a, width)
                    if v != want:
                        wrote = any((a + j) in model for j in range(width))
                        key = "%s:%s:bpa%d-%s" % ("read-your-writes" if wrote else "frame", names[width], bpa, "be" if big else "le")
                        res.viol(key, cmd=console[idx], addr="0x%x" % a, got="%x" % v, want="%x" % want,
                                 history=console[max(0, idx - 6):idx])
                        break
                    if a < lo_b - 64 * bpa or a > hi_b + 192 * bpa:
                        res.viol("print:outside-requested-range:bpa%d" % bpa, cmd=console[idx], addr="0x%x" % a)
                        break
                missing = [a for a in must if a not in seen]
                if missing:
                    res.viol("print:written-address-not-shown:%s:bpa%d" % (names[width], bpa),
                             cmd=console[idx], missing=["0x%x" % a for a in sorted(missing)[:5]], out=joined[:300])
                pending.difference_update(seen)
                if kind == "sweep":
                    res.probe("sweep_blocks")
                    if len(got) < 200:
                        res.viol("print:sweep-short:bpa%d" % bpa, cmd=console[idx], n=len(got))
            elif kind == "disasm-all":
                listed = {}
                for mm in re.finditer(r"^0x([0-9a-f]+): 0x([0-9a-f]{4})", joined, re.M):
                    listed[int(mm.group(1), 16)] = int(mm.group(2), 16)
                res.probe("disasm_all_words", len(listed))
                bad = None
                for la, word in listed.items():
                    want = model.get(la, 0) | (model.get(la + 1, 0) << 8)
                    if word != want:
                        bad = (la, word, want)
                        break
                if bad:
                    res.viol("disasm:listed-word-differs:bpa%d" % bpa, addr="0x%x" % bad[0], got="%04x" % bad[1], want="%04x" % bad[2])
                else:
                    missing = [a for a in model if a not in listed and (a - 1) not in listed]
                    if missing:
                        res.viol("disasm:written-byte-not-listed:bpa%d" % bpa, addr="0x%x" % min(missing), n=len(missing),
                                 listed_from="0x%x" % min(listed) if listed else None, listed_to="0x%x" % max(listed) if listed else None)
            elif kind == "blank":
                if re.search(r"Wrote \d+ ", joined):
                    res.viol("blank-line:wrote-memory", after=payload, out=joined[:200])
                res.probe("blank_line_after_memory_command")
            elif kind == "bad":
                ok = re.search(r"Unknown command|requires argument|Syntax error|Illegal number|doesn't take|Wrote 0 |Error|Illegal range", joined)
                m = re.search(r"Wrote (\d+) ", joined)
                if m and int(m.group(1)) > 0:
                    # a write that stops at a malformed value: prefix semantics, as reported by the tool
                    toks = payload.split()
                    try:
                        a = int(toks[1], 0)
                        n = int(m.group(1))
                        w = {"write": 1, "write16": 2, "write32": 4}[toks[0]]
                        addr = a * bpa
                        for t in (toks[2:] + ["0"] * n)[:n]:
                            try:
                                v = int(t, 0)
                            except ValueError:
                                v = 0
                            put(addr, v, w)
                            addr += w
                    except Exception:
                        res.unparsed += 1
                    res.probe("bad_command_partial_write")
                elif ok or not joined.strip():
                    res.probe("bad_command_rejected")
                else:
                    res.probe("bad_command_other_output")
            elif kind == "breakrun":
                bp, want = payload
                tmpl, bits, rre, pcre, _ = SIM[cpu]
                mh = re.search(r"Breakpoint hit at 0x([0-9a-f]+)", joined)
                if not mh:
                    res.viol("breakrun:breakpoint-not-hit:%s" % cpu, cmd=console[idx - 3:idx + 1], tail=joined[-300:])
                    continue
                if int(mh.group(1), 16) != bp:
                    res.viol("breakrun:hit-at-other-address:%s" % cpu, want="%x" % bp, got=mh.group(1))
                regs = re.findall(rre, joined)
                if regs and int(regs[-1], REG_RADIX.get(cpu, 16)) != want:
                    res.viol("breakrun:stopped-after-another-instruction:%s" % cpu, want="%x" % want, got=regs[-1], cmd=console[idx - 3:idx + 1])
                res.probe("breakrun_checked")
                res.probe("breakrun_checked:" + cpu)
            elif kind == "simret":
                a, want = payload
                mp = re.search(SIM[cpu][3], joined)
                if not mp:
                    res.unparsed += 1
                    continue
                if int(mp.group(1), 16) != want:
                    res.viol("simret:continues-at-other-address:%s" % cpu, want="%x" % want, got=mp.group(1), cmd=console[idx - 4:idx + 1])
                res.probe("simret_checked:" + cpu)
            elif kind == "simstore":
                a, d, v, ilen, width = payload
                m = re.search(r"^.! 0x([0-9a-f]+):", joined, re.M)
                if m and int(m.group(1), 16) != a:
                    res.viol("simstore:executed-at-other-address:%s" % cpu, cmd=console[idx - 3:idx + 1], shown=m.group(0))
                    continue
                put(d * bpa, v, width)   # observed by the prints that follow and by the final sweep
                res.probe("simstore_stepped")
                res.probe("simstore_stepped:" + cpu)
            elif kind == "simstep":
                a, imm, ilen = payload
                tmpl, bits, rre, pcre, _ = SIM[cpu]
                m = re.search(r"^.! 0x([0-9a-f]+):", joined, re.M)
                if m and int(m.group(1), 16) != a:
                    res.viol("simstep:executed-at-other-address:%s" % cpu, cmd=console[idx - 2:idx + 1], shown=m.group(0))
                    continue
                mr = re.search(rre, joined)
                mp = re.search(pcre, joined)
                if not mr or not mp:
                    res.unparsed += 1
                    res.probe("simstep_unparsed")
                    continue
                if int(mr.group(1), REG_RADIX.get(cpu, 16)) != imm:
                    res.viol("simstep:register-differs-from-written-immediate:%s" % cpu, want="%x" % imm, got=mr.group(1), cmd=console[idx - 2:idx + 1])
                pc_units = int(mp.group(1), 16)
                if pc_units != a + ilen // bpa:
                    res.viol("simstep:pc-after-step:%s" % cpu, want="%x" % (a + ilen // bpa), got=mp.group(1))
                res.probe("simstep_checked")
                res.probe("simstep_checked:" + cpu)
            elif kind == "set_pc":
                tmpl, bits, rre, pcre, _ = SIM[cpu]
                mp = re.search(pcre, joined)
                if not mp:
                    res.unparsed += 1
                elif int(mp.group(1), 16) not in (payload & 0xffff, payload, payload & PC_MASK.get(cpu, 0xffff)):
                    res.viol("set_pc:%s" % cpu, want="%x" % payload, got=mp.group(1))
                else:
                    res.probe("set_pc_checked")
            elif kind == "asm-end":
                if "Error assembling" in joined:
                    res.viol("asm:valid-block-rejected:%s" % cpu, cmd=console[max(0, idx - 4):idx + 1], out=joined[:300])
                else:
                    for start_b, blob in payload:
                        for j, b in enumerate(blob):
                            wr(start_b + j, b)
                    res.probe("asm_block")
                    if len(payload) > 1:
                        res.probe("asm_block_with_inner_org")
        res.probe("cpu:" + cpu)
        return res

    def shrink(self, plan):
        ops = plan["ops"]
        n = len(ops)
        chunk = max(n // 2, 1)
        while chunk >= 1:
            for i in range(0, n, chunk):
                c = copy.deepcopy(plan)
                del c["ops"][i:i + chunk]
                yield c
            if chunk == 1:
                break
            chunk //= 2
        if plan["load"] and not plan["load"].get("syms"):      # (symbol-named operations need the file that defines them)
            c = copy.deepcopy(plan)
            c["load"] = None
            yield c
        for i, op in enumerate(ops):
            if op["op"] == "write" and len(op["vals"]) > 1:
                c = copy.deepcopy(plan)
                c["ops"][i]["vals"] = op["vals"][:1]
                yield c
