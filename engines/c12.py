"""C12 - failure is atomic: diagnostics, exit status and output file agree.

Run = a history of 3-8 operations on one persistent simulated workspace:
edit/corrupt the source, plant stale files, run the real naken_asm (one forked
lifetime each) under open/write/vanish/FD faults.  After every assembly the
contract model (A1-A6) is evaluated on exit status, stdout and SimFs.
"""
import copy
import json
import os
import re

from vlib.core import *
from vlib.framework import Engine, RunResult
from vlib import progs

TYPES = ["hex", "srec", "elf", "bin", "wdc", "uf2", "amiga", "macho"]
EXT = {"hex": "hex", "srec": "srec", "elf": "elf", "bin": "bin", "wdc": "wdc", "uf2": "uf2", "amiga": "amiga", "macho": "macho"}

# kind -> (lines, definitely erroneous?, structural?)
def corruption_lines(kind, rng_word):
    w = rng_word
    table = {
        "unknown-mnemonic": (["  qzx%s r1, r2" % w], True, False),
        "undefined-symbol": ([".db undef_%s" % w], True, False),
        "undefined-symbol-dw": ([".dw undef_%s + 1" % w], True, False),
        "out-of-range-db": ([".db 256"], True, False),
        "out-of-range-dw": ([".dw 70000"], True, False),
        "org-no-operand": ([".org"], True, False),
        "set-no-equals": ([".set zz_%s" % w], True, False),
        "unknown-directive": ([".bogus_%s 5" % w], True, False),
        "db-two-values-no-comma": ([".db 1 2"], True, False),
        "dw-unclosed-paren": ([".dw (1 + 2"], True, False),
        "duplicate-label": (["dup_%s:" % w, ".db 1", "dup_%s:" % w], True, False),
        "missing-include": (['.include "nothere_%s.inc"' % w], True, False),
        "missing-binfile": (['.binfile "nothere_%s.bin"' % w], True, False),
        "unterminated-quote": (['.ascii "abc'], True, False),
        "ifdef-no-label": ([".ifdef", ".db 1", ".endif"], True, False),
        "if-no-expression": ([".if", ".db 1", ".endif"], True, False),
        "if-bad-expression": ([".if 1 +", ".db 1", ".endif"], True, False),
        "if-stray-close-paren": ([".define MODEL_%s 2" % w, ".if MODEL_%s == 2 )" % w, ".db 1", ".endif"], True, False),
        "unterminated-if": ([".if 1", ".db 1"], True, True),
        "unterminated-ifdef": ([".ifndef nope_%s" % w, ".db 1"], True, True),
        "stray-else": ([".else"], True, True),
        "stray-endif": ([".endif"], True, True),
        "stray-endr": ([".endr"], True, True),
        "stray-endm": ([".endm"], True, True),
        "unterminated-macro": ([".macro UM_%s" % w, ".db 1"], True, True),
        "unterminated-comment": (["/* never closed"], True, True),
        "unterminated-repeat": ([".repeat 2", ".db 1"], True, True),
        # limits: "too many nested macros" cannot be assembled; what follows must not be emitted as if nothing happened
        "define-self": ([".define RS_%s RS_%s" % (w, w), ".db RS_%s" % w, ".db 7"], True, False),
        "define-mutual": ([".define RA_%s RB_%s" % (w, w), ".define RB_%s RA_%s" % (w, w), ".db RA_%s" % w, ".db 7"], True, False),
        "define-chain-129": ([".define ZC0_%s 1" % w] + [".define ZC%d_%s ZC%d_%s" % (i, w, i - 1, w) for i in range(1, 131)] +
                             [".db ZC130_%s" % w, ".db 7"], True, False),
        "define-chain-stmt": ([".define ZS0_%s .db 5" % w] + [".define ZS%d_%s ZS%d_%s" % (i, w, i - 1, w) for i in range(1, 131)] +
                              ["ZS130_%s" % w, ".db 7"], True, False),
        "macro-recursive": ([".macro RM_%s" % w, ".db 1", "RM_%s" % w, ".endm", "RM_%s" % w, ".db 7"], True, False),
        # an error raised deep inside an expression (division by zero) must surface whatever the operator order
        "div-zero": ([".db 4 / 0"], True, False),
        "div-zero-after-add": ([".dw 2 + 8 / 0"], True, False),
        "div-zero-before-add": ([".dw 8 / 0 + 2"], True, False),
        "mod-zero-after-mul": ([".dw 2 * 3 + 7 % 0"], True, False),
        "div-zero-in-parens": ([".dw 1 + (6 / (3 - 3)) * 2"], True, False),
        "div-zero-via-equ": (["DZ_%s equ 0" % w, ".dw 2 + 100 / DZ_%s" % w], True, False),
        # a name can be given one meaning only
        "duplicate-define": ([".define DD_%s 1" % w, ".define DD_%s 2" % w, ".db DD_%s" % w], True, False),
        "duplicate-equ-directive": (["de_%s:" % w, ".equ de_%s = 5" % w, ".db 1"], True, False),
        "duplicate-macro": ([".macro DM_%s" % w, ".db 1", ".endm", ".macro DM_%s" % w, ".db 2", ".endm", "DM_%s" % w], True, False),
        "set-no-name": ([".set"], True, False),
        "export-local-label": ([".scope", "xl_%s:" % w, ".db 1", ".export xl_%s" % w, ".ends"], True, False),
        "set-on-a-label": (["sl_%s:" % w, ".set sl_%s = 5" % w, ".db 1"], True, False),
        # errors that end the process from inside the tokenizer / macro expander
        "token-too-long": (["x" * 2000], True, False),
        "string-too-long": ([".ascii \"" + "s" * 2000 + "\""], True, False),
        "equ-no-name": ([".equ"], True, False),
        # consistency only (may happen to form another valid statement)
        "db-trailing-comma": ([".db 1,"], False, False),
        "db-empty": ([".db"], False, False),
        "define-empty": ([".define"], False, False),
    }
    return table[kind]


KINDS = ["unknown-mnemonic", "undefined-symbol", "undefined-symbol-dw", "out-of-range-db", "out-of-range-dw",
         "org-no-operand", "set-no-equals", "unknown-directive", "db-two-values-no-comma", "dw-unclosed-paren", "duplicate-label",
         "missing-include", "missing-binfile", "unterminated-quote", "ifdef-no-label", "if-no-expression",
         "if-bad-expression", "if-stray-close-paren", "unterminated-if", "unterminated-ifdef", "stray-else", "stray-endif", "stray-endr",
         "stray-endm", "unterminated-macro", "unterminated-comment", "unterminated-repeat",
         "define-self", "define-mutual", "define-chain-129", "define-chain-stmt", "macro-recursive",
         "div-zero", "div-zero-after-add", "div-zero-before-add", "mod-zero-after-mul", "div-zero-in-parens", "div-zero-via-equ",
         "duplicate-define", "duplicate-equ-directive", "duplicate-macro", "set-no-name", "export-local-label", "set-on-a-label", "equ-no-name", "token-too-long", "string-too-long",
         "db-trailing-comma", "db-empty", "define-empty", "operand-drop", "operand-extra", "punct-swap", "truncate", "number-extreme", "hash-no-value"]
LINE_KINDS = ("operand-drop", "operand-extra", "punct-swap", "truncate", "number-extreme", "hash-no-value")
NUM_LIT = re.compile(r"(?<![\w.$])(0x[0-9a-fA-F]+|\d+)\b")
EXTREMES = [-1, -129, -32769, 5, 7, 0x81, 255, 256, 0x1001, 65535, 65536, 0x12345, 0x100000, 0x4000000, 0x7fffffff, 0xffffffff, -0x80000000, 3, 9, 0x3f, 0x40]
PLACES = ["top", "in-macro", "in-include", "in-repeat", "in-if", "in-nested-if", "in-else", "in-ifdef", "in-deep-if"]
STRUCT_PLACES = ["top", "in-include", "at-end"]

DIRECTED = [(k, p) for k in KINDS[:47] for p in PLACES if not corruption_lines(k, "x")[2]] + \
           [(k, p) for k in KINDS[:47] for p in STRUCT_PLACES if corruption_lines(k, "x")[2]]

ERR_LINE = re.compile(r"Error")
FAIL_DIAG = re.compile(r"Error|Cannot open|Couldn't open|Unknown |Failed|bailing|not supported|No input|Usage")


def list_path(out):
    """where -l puts the listing: the output name with what follows its last '.' replaced by lst (main/naken_asm.cpp)"""
    i = out.rfind(".")
    return out[:i + 1] + "lst" if i > 0 else out + ".lst"


def wrap(place, lines, w):
    ind = lines
    if place == "top" or place == "at-end":
        return [ind], {}
    if place == "in-macro":
        return [[".macro CM_%s" % w] + ind + [".endm"], ["CM_%s" % w]], {}
    if place == "in-include":
        return [['.include "cinc_%s.inc"' % w]], {"cinc_%s.inc" % w: "\n".join(ind) + "\n"}
    if place == "in-repeat":
        return [[".repeat 2"] + ind + [".endr"]], {}
    if place == "in-if":
        return [[".if 1"] + ind + [".endif"]], {}
    if place == "in-nested-if":
        return [[".if 1", ".if 1"] + ind + [".endif", ".endif"]], {}
    if place == "in-deep-if":
        return [[".if 1", ".ifndef nd_%s" % w, ".if 2 > 1"] + ind + [".endif", ".endif", ".endif"]], {}
    if place == "in-else":
        return [[".if 0", ".db 1", ".else"] + ind + [".endif"]], {}
    if place == "in-ifdef":
        return [[".define CD_%s 1" % w], [".ifdef CD_%s" % w] + ind + [".endif"]], {}
    raise ValueError(place)


class C12(Engine):
    prop = "C12"
    title = "failure is atomic"
    quick_budget = 90
    quick_runs = 24000
    thorough_budget = 900
    rule = ("run i = history of 3-8 operations on one persistent SimFs workspace (set valid source from the 45-CPU corpus with "
            "labels/.db/macros/.if/.include; single-point corruption of %d kinds x %d placements; plant stale output; assemble with "
            "type/flags/-o drawn per op under faults: include vanishing before pass 2, fopen(list/out) failure, ENOSPC after k output "
            "or listing bytes (k swept), FD limit, source truncated at byte k, source not seekable (a pipe)).  The first %d run indices "
            "enumerate every (corruption kind x placement) cell and then every corpus instruction with a literal and every mnemonic of "
            "every CPU table with boundary / extreme literals (three per run) and an immediate marker without a value.  After every naken_asm lifetime the contract A1-A6 (status in {0,1}; status 0 <=> no 'Error' line and output file "
            "identical to a pristine fault-free reference run; status != 0 => diagnostic and no file at -o, stale ones included; reached "
            "erroneous statement => status != 0; failed output write => status != 0) is checked.  Distinct = distinct seam-event hash; "
            "non-trivial = a fault fired or the workspace carried state from an earlier operation into the assembly." % (
                len(KINDS), len(PLACES), len(DIRECTED)))

    assumptions = ["read errors on the source itself are not injected ('every readable source file')",
                   "abnormal termination (signal/sanitizer) inside a C12 history is C16's finding and is only counted here",
                   "after an injected fopen(out) failure the program is not required to remove what it could not open"]

    NUM_SWEEP = None

    @classmethod
    def num_sweep(cls):
        if cls.NUM_SWEEP is None:
            cls.NUM_SWEEP = [(cpu, l[0]) for cpu in sorted(progs.corpus()) for l in progs.corpus()[cpu] if NUM_LIT.search(l[0]) and ":" not in l[0]]
            # every mnemonic of every CPU's table with one literal operand (jumps, calls and branches to an address are not
            # in the corpus: their encoding depends on where they stand)
            mn = json.load(open(os.path.join(VERIF, "corpus", "mnemonics.json")))
            cls.NUM_SWEEP += [(cpu, "%s 0x1004" % m) for cpu in sorted(mn) for m in mn[cpu]]
        return cls.NUM_SWEEP

    def directed(self):
        return len(DIRECTED) + len(self.num_sweep())

    # ------------------------------------------------------------------ planning
    def plan(self, rng, index):
        prog = progs.gen_program(rng, nstmts=rng.range(2, 10), instr_share=3)
        if rng.chance(1, 5) and prog["cpu"] != "webasm":
            prog["stmts"].append([".end"])       # nothing follows: whatever was wrong before it is still wrong
        ops = []
        w = "%x" % rng.below(1 << 20)
        typ = rng.pick(TYPES)
        out = rng.pick(["out." + EXT[typ], "out.hex", "prog.out", "sub/o." + EXT[typ]])
        if len(DIRECTED) <= index < self.directed():
            # every corpus instruction that carries a literal, with three boundary / extreme values in turn
            cpu, line = self.num_sweep()[index - len(DIRECTED)]
            prog = {"cpu": cpu, "stmts": [[".%s" % cpu], [".org 0x%x" % rng.pick([0, 0x100, 0x1000])], ["  " + line], [".db 7"]], "files": {}}
            ops = [{"op": "asm", "type": typ, "flags": [], "out": out, "faults": []}]
            for _ in range(3):
                ops.append({"op": "corrupt", "kind": "number-extreme", "place": "top", "pos": 1, "w": w, "k": rng.below(100000)})
                ops.append({"op": "asm", "type": typ, "flags": rng.subset(["-l", "-q"], 1, 3), "out": out, "faults": []})
                ops.append({"op": "restore"})
            if re.search(r"#\s*[\w$-]", line):
                ops.append({"op": "corrupt", "kind": "hash-no-value", "place": "top", "pos": 1, "w": w, "k": 0})
                ops.append({"op": "asm", "type": typ, "flags": [], "out": out, "faults": []})
                ops.append({"op": "restore"})
            return {"prog": prog, "ops": ops}
        if index < len(DIRECTED):
            kind, place = DIRECTED[index]
            pos = rng.range(1, len(prog["stmts"]))
            ops.append({"op": "asm", "type": typ, "flags": [], "out": out, "faults": []})
            ops.append({"op": "corrupt", "kind": kind, "place": place, "pos": pos, "w": w})
            ops.append({"op": "asm", "type": typ, "flags": rng.subset(["-l", "-q"], 1, 3), "out": out, "faults": []})
            ops.append({"op": "restore"})
            ops.append({"op": "asm", "type": typ, "flags": [], "out": out, "faults": []})
            return {"prog": prog, "ops": ops}
        n = rng.range(3, 8)
        corrupted = False
        for _ in range(n):
            k = rng.below(10)
            if k < 5:
                if rng.chance(1, 3):
                    typ = rng.pick(TYPES)
                if rng.chance(1, 4):
                    out = rng.pick(["out." + EXT[typ], "out.hex", "prog.out", "sub/o." + EXT[typ]])
                ops.append(self.asm_op(rng, prog, typ, out))
            elif k < 8:
                if corrupted and rng.chance(1, 2):
                    ops.append({"op": "restore"})
                    corrupted = False
                else:
                    kind = rng.pick(KINDS)
                    struct = kind not in LINE_KINDS and corruption_lines(kind, "x")[2]
                    place = rng.pick(STRUCT_PLACES if struct else PLACES)
                    ops.append({"op": "corrupt", "kind": kind, "place": place, "pos": rng.range(1, len(prog["stmts"])),
                                "w": w, "k": rng.below(100000)})
                    corrupted = True
            elif k == 8:
                ops.append({"op": "stale", "path": out, "size": rng.pick([1, 10, 5000, 100000]),
                            "byte": rng.pick([0x00, 0x3a, 0xff, 0x53])})
            else:
                ops.append({"op": "remove", "path": rng.pick([out, "inc/f1.inc", "g1.inc"])})
        if not any(o["op"] == "asm" for o in ops):
            ops.append(self.asm_op(rng, prog, typ, out))
        return {"prog": prog, "ops": ops}

    def asm_op(self, rng, prog, typ, out):
        flags = rng.subset(["-l", "-q", "-dump_symbols", "-dump_macros"], 1, 3)
        faults = []
        if rng.chance(2, 5):
            k = rng.below(8)
            incs = [f for f in sorted(prog["files"]) if f.endswith(".inc") or f.endswith(".dat")]
            if k == 0 and incs:
                faults.append({"kind": "vanish", "path": rng.pick(incs), "nth": 2})
            elif k == 1:
                faults.append({"kind": "open_fail", "path": list_path(out), "nth": 1, "errno": rng.pick(["EACCES", "ENOSPC", "EMFILE"]), "what": "list"})
                if "-l" not in flags:
                    flags.append("-l")
            elif k == 7:
                # the source is a pipe (readable, not seekable): it cannot be read again for pass 2
                faults.append({"kind": "noseek", "path": "a.asm", "nth": 0, "what": "source"})
            elif k == 6:
                # the listing cannot be written (disk full after k bytes): whatever the program makes of that, status,
                # diagnostics and the file at -o still have to agree
                faults.append({"kind": "write_fail", "path": list_path(out), "nth": 0, "offset": rng.pick([0, 1, 100, 1000, 4096]) if rng.chance(1, 2) else rng.below(3000),
                               "errno": rng.pick(["ENOSPC", "EIO"]), "what": "list"})
                if "-l" not in flags:
                    flags.append("-l")
            elif k == 2:
                faults.append({"kind": "open_fail", "path": out, "nth": 1, "errno": rng.pick(["EACCES", "ENOSPC", "EROFS"]), "what": "out"})
            elif k == 3 or k == 4:
                faults.append({"kind": "write_fail", "path": out, "nth": 0, "offset": rng.pick([0, 1, 10, 43, 100, 511, 512, 4095, 4096, 8192]) if rng.chance(1, 2) else rng.below(3000),
                               "errno": rng.pick(["ENOSPC", "EIO", "EDQUOT"]), "what": "out"})
            else:
                faults.append({"kind": "fd_limit", "limit": rng.range(4, 7)})
        return {"op": "asm", "type": typ, "flags": flags, "out": out, "faults": faults}

    # ------------------------------------------------------------------ source state
    def apply_corruption(self, prog, op):
        """Returns (prog', model) with model = {"erroneous": bool, "kind", "place"} or None if not applicable."""
        p = copy.deepcopy(prog)
        kind, place, pos, w = op["kind"], op["place"], op["pos"], op["w"]
        pos = max(1, min(pos, len(p["stmts"])))
        if kind == "truncate":
            text = progs.render(p)
            k = op.get("k", 0) % (len(text) + 1)
            p["raw"] = text[:k]
            return p, {"erroneous": False, "kind": kind, "place": "top"}
        if kind in ("operand-drop", "operand-extra", "punct-swap", "number-extreme", "hash-no-value"):
            idx = [i for i, s in enumerate(p["stmts"]) if len(s) == 1 and s[0][:1] in (" ", "\t") and s[0].strip() and i > 0]
            if kind == "number-extreme":
                idx = [i for i in idx if NUM_LIT.search(p["stmts"][i][0])]
            if kind == "hash-no-value":
                idx = [i for i in idx if re.search(r"#\s*[\w$-]", p["stmts"][i][0])]
            if kind == "punct-swap":
                idx = [i for i in idx if re.search(r"[()\[\],#@+]", p["stmts"][i][0])]
            if not idx:
                return None, None
            i = idx[pos % len(idx)]
            line = p["stmts"][i][0]
            if kind == "operand-drop":
                line = line.rsplit(",", 1)[0] if "," in line else line.rsplit(" ", 1)[0]
            elif kind == "punct-swap":
                # one punctuation character replaced by another: consistency checks only (the result may be valid)
                spots = [m.start() for m in re.finditer(r"[()\[\],#@+]", line)]
                at = spots[op.get("k", 0) % len(spots)]
                repl = "()[],#@+-"[(op.get("k", 0) // 7) % 9]
                line = line[:at] + repl + line[at + 1:]
            elif kind == "hash-no-value":
                # the statement stops right after the immediate marker: an immediate without a value is not an immediate 0
                line = line[:line.rindex("#") + 1]
                p["stmts"][i] = [line]
                return p, {"erroneous": True, "kind": kind, "place": "top"}
            elif kind == "number-extreme":
                # one numeric literal of an instruction replaced by a boundary or extreme value: consistency checks only
                # (the result may be encodable); an operand the assembler calls out of range must fail the assembly
                spots = list(NUM_LIT.finditer(line))
                m = spots[op.get("k", 0) % len(spots)]
                v = EXTREMES[(op.get("k", 0) // 5) % len(EXTREMES)]
                line = line[:m.start()] + ("%d" % v if v < 0 or (op.get("k", 0) & 1) else "0x%x" % v) + line[m.end():]
            else:
                line = line + ", 1, 2"
            p["stmts"][i] = [line]
            return p, {"erroneous": False, "kind": kind, "place": "top"}
        lines, err, struct = corruption_lines(kind, w)
        if struct and place not in STRUCT_PLACES:
            place = "top"
        if place == "at-end":
            pos = len(p["stmts"])
        stmts, files = wrap(place, lines, w)
        p["stmts"][pos:pos] = stmts
        p["files"].update(files)
        return p, {"erroneous": err, "kind": kind, "place": place}

    # ------------------------------------------------------------------ execution
    def run(self, ex, plan):
        res = RunResult()
        base = plan["prog"]
        cur = copy.deepcopy(base)
        model = None
        ws = {}            # durable workspace (path -> bytes)
        digests = []

        def write_sources(prog):
            for p in [p for p in ws if p.endswith(".asm") or p.endswith(".inc") or p.endswith(".dat")]:
                del ws[p]
            if "raw" in prog:
                ws["/sim/w/a.asm"] = prog["raw"].encode("latin-1")
                for name, text in prog["files"].items():
                    ws["/sim/w/" + name] = text.encode("latin-1")
            else:
                ws.update(progs.fs_for(prog))

        write_sources(cur)
        history = 0
        base_ok = None
        for op in plan["ops"]:
            kind = op["op"]
            if kind == "corrupt":
                p, m = self.apply_corruption(base, op)
                if p is not None:
                    cur, model = p, m
                    write_sources(cur)
                continue
            if kind == "restore":
                cur, model = copy.deepcopy(base), None
                write_sources(cur)
                continue
            if kind == "stale":
                ws["/sim/w/" + op["path"]] = bytes([op["byte"]]) * op["size"]
                continue
            if kind == "remove":
                ws.pop("/sim/w/" + op["path"], None)
                continue
            # ---- asm
            out = "/sim/w/" + op["out"]
            argv = ["naken_asm"] + op["flags"] + ["-type", op["type"], "-o", op["out"], "a.asm"]
            faults = [f for f in op["faults"] if f["kind"] != "fd_limit"]
            env = {"event_ceiling": 2000000}
            for f in op["faults"]:
                if f["kind"] == "fd_limit":
                    env["fd_limit"] = f["limit"]
            had_stale = out in ws
            files = dict(ws)
            if "/" in op["out"]:
                files["/sim/w/" + op["out"].rsplit("/", 1)[0]] = None      # directory exists
            o = ex.call(build_request(MODE_ASM, argv, files, faults, env=env, cpu_ms=8000))
            res.absorb(o)
            digests.append(o.digest())
            if history > 0 or had_stale:
                res.nontrivial = True
            history += 1
            if o.kind() != "exit":
                res.probe("abnormal_termination_left_to_C16")
                continue
            apply_delta(ws, o)
            st = o.status
            text = o.text()
            lines = text.split("\n")
            has_error_line = any(ERR_LINE.search(l) for l in lines)
            cause = "valid"
            if model is not None:
                cause = "%s@%s" % (model["kind"], model["place"])
            fired = {}
            for f, n in zip(faults, o.fault_fired):
                if n:
                    fired[f["kind"] + ":" + f.get("what", "")] = n
            if o.counters[7]:
                fired["emfile:"] = o.counters[7]
            fcause = "+".join(sorted(fired)) if fired else ""
            ctx = {"argv": argv[1:], "cause": cause, "faults_fired": fired, "status": st, "tail": text[-500:]}

            if st not in (0, 1):
                res.viol("A1:status-%d:%s" % (st & 0xff, cause), **ctx)
                continue
            if st == 0 and has_error_line:
                first = [l for l in lines if ERR_LINE.search(l)][0]
                msg = re.sub(r" at \S+:\d+\.?$", "", first.strip())
                msg = re.sub(r"'[^']*'", "T", msg)
                msg = re.sub(r"-?\d+", "N", msg)
                res.viol("A2:status0-with-Error-line:%s" % msg.replace(" ", "-")[:70], **ctx)
            if st != 0 and not any(FAIL_DIAG.search(l) for l in lines):
                res.viol("A2:failure-without-diagnostic:%s%s" % (cause, fcause), **ctx)
            if st != 0 and out in ws:
                # not demanded when the output path itself could not be opened (injected
                # open failure, or FD exhaustion reported by the program for that very path)
                out_open_failed = "open_fail:out" in fired or (
                    "emfile:" in fired and ("Couldn't open %s for writing" % op["out"]) in text)
                if not out_open_failed:
                    what = "stale" if had_stale and ws[out] == files.get(out) else ("partial" if True else "")
                    res.viol("A4:file-left-at-output-path:%s:%s" % (what, fcause or cause), **ctx)
            if st == 0 and model is not None and model["erroneous"]:
                res.viol("A5:erroneous-source-accepted:%s" % cause, **ctx)
            if st == 0 and ("write_fail:out" in fired or "open_fail:out" in fired):
                res.viol("A6:status0-after-failed-output-%s" % ("write" if "write_fail:out" in fired else "open"), **ctx)
            if st == 0 and "vanish:" in fired:
                res.viol("A5:include-vanished-before-pass2-accepted", **ctx)
            if st == 0:
                if out not in ws:
                    res.viol("A3:status0-without-output-file:%s" % (fcause or cause), **ctx)
                else:
                    # pristine fault-free reference of the same source / type / flags
                    ref_files = {p: d for p, d in ws.items() if p.endswith(".asm") or p.endswith(".inc") or p.endswith(".dat")}
                    if "/" in op["out"]:
                        ref_files["/sim/w/" + op["out"].rsplit("/", 1)[0]] = None
                    r = ex.call(build_request(MODE_ASM, argv, ref_files, [], env={"event_ceiling": 2000000}, cpu_ms=8000))
                    res.absorb(r)
                    digests.append(r.digest())
                    ref = None
                    for p, k, d in r.delta:
                        if p == out and k == 0:
                            ref = d
                    if r.kind() == "exit" and r.status == 0 and ref is not None:
                        a, b = ws[out], ref
                        if op["type"] == "srec":
                            a = b"\n".join(l for l in a.split(b"\n") if not l.startswith(b"S0"))
                            b = b"\n".join(l for l in b.split(b"\n") if not l.startswith(b"S0"))
                        if a != b and not ("write_fail:out" in fired):
                            res.viol("A3:output-differs-from-pristine-reference:%s:%s" % (op["type"], fcause or ("stale" if had_stale else "history")),
                                     len_got=len(a), len_ref=len(b), **ctx)
                    elif r.kind() == "exit" and r.status != 0 and not fired:
                        res.viol("A3:same-source-fails-in-pristine-workspace", **ctx)
                res.probe("asm_success")
            else:
                res.probe("asm_failure")
                if had_stale:
                    res.probe("failure_with_stale_output_present")
            if model is not None:
                res.probe("corrupt:" + model["kind"])
                res.probe("place:" + model["place"])
                if model["erroneous"] and st != 0:
                    res.probe("erroneous_rejected")
        res.digest = plan_hash(digests)
        return res

    def shrink(self, plan):
        ops = plan["ops"]
        for i in range(len(ops)):
            c = copy.deepcopy(plan)
            del c["ops"][i]
            if any(o["op"] == "asm" for o in c["ops"]):
                yield c
        for i, op in enumerate(ops):
            if op["op"] == "asm":
                for j in range(len(op["faults"])):
                    c = copy.deepcopy(plan)
                    del c["ops"][i]["faults"][j]
                    yield c
                for j in range(len(op["flags"])):
                    c = copy.deepcopy(plan)
                    del c["ops"][i]["flags"][j]
                    yield c
                if op["type"] != "hex":
                    c = copy.deepcopy(plan)
                    c["ops"][i]["type"] = "hex"
                    yield c
        stmts = plan["prog"]["stmts"]
        for i in range(len(stmts) - 1, 0, -1):
            c = copy.deepcopy(plan)
            del c["prog"]["stmts"][i]
            yield c
        for name in sorted(plan["prog"]["files"]):
            c = copy.deepcopy(plan)
            del c["prog"]["files"][name]
            yield c
