"""C13 - assembly is a deterministic function of the source alone.

Run = one valid program P, a reference execution R0 (fresh simulated process,
clock c0, zero heap/stack fill, no flags) and 4-10 perturbed executions of the
same P: other clock, heap/stack garbage, read chunking, reporting flags, output
name/type, in-process history of other assemblies (naken_asm main() called
repeatedly; assemble_code() called repeatedly on one UtilContext), plain
repetition.  Oracle: equality with R0 on the artefact the property names.
"""
import copy
import re
import struct

from vlib.core import *
from vlib.framework import Engine, RunResult
from vlib import progs, decoders

TYPES = ["hex", "srec", "elf", "bin", "wdc", "uf2", "amiga", "macho"]
NUM_RE = re.compile(r"(?<![\w.$])(0x[0-9a-fA-F]+|\d+)\b")
DIMS = ["clock", "heap", "stack", "chunk", "flags", "name", "type", "history-main", "history-api", "repeat", "heap+stack+clock", "build", "flags+name", "default-cpu", "inline-set"]


def strip_s0(b):
    return b"\n".join(l for l in b.split(b"\n") if not l.startswith(b"S0"))


class C13(Engine):
    prop = "C13"
    digest_may_vary = True      # see framework.gate_and_minimise
    title = "assembly is a deterministic function of the source alone"
    quick_budget = 90
    quick_runs = 13000
    thorough_budget = 900
    variants = ("small",)
    rule = ("run i = valid program P (corpus instructions of 45 CPUs or data directives for the other 23, with macros/.if/.repeat/"
            ".include/.binfile) + reference execution R0 + 4-10 perturbed executions of the same P, each changing a seeded subset of: "
            "simulated clock (incl. across midnight/year), heap fill and stack fill (0x00/0xff/0xa5/seeded), read chunking, build variant (64 KiB pages and 32 KiB pools vs 256-byte pages and 1-4 KiB pools), reporting flags "
            "(-l -q -dump_symbols -dump_macros), output name/directory/extension, output type (decoded images compared), in-process history "
            "(0-3 other programs - failing ones included - assembled first in the same process through naken_asm's main(); assemble_code() "
            "called repeatedly on one UtilContext), plain repetition.  Oracle: byte equality of the output file (S0 header masked when the "
            "clock differs) / decoded image / exit status with R0; and, through hook H2 of /repo, no byte in the written image of R0 that "
            "only pass 1 produced (programs with .dw/.ifdef on later labels, data before the CPU directive, tall sources).  A fixed, "
            "seed-independent part of the run indices sweeps every corpus instruction and table mnemonic with an operand naming a label "
            "defined further down (3 contexts each) under that oracle.  Distinct = distinct seam-event hash; non-trivial = the perturbed execution "
            "shared a process with an earlier assembly, or ran under a different clock / memory fill / chunking than R0.")
    assumptions = ["pass-1 residue is a function of the source and is not perturbed from outside; what is perturbed is every byte the process did not write itself (heap, stack, fresh pages)",
                   "the listing is only required to exist when -l is given (its content is C18's subject)",
                   "cross-type comparison uses the C03 reference decoders with C03's zero-gap tolerance for contiguous formats"]

    FW_ITEMS = None
    FW_PER_RUN = 8
    FW_CONTEXTS = [(0x0, ".db 1\n"), (0x100, ".db 1\n"), (0x8000, ".resb 300\n")]

    @classmethod
    def fw_items(cls):
        """every corpus instruction with one of its literals replaced by a label that is defined further down, and every table
        mnemonic with such a label as its operand, in three contexts (origin, distance to the label): the same list for every seed"""
        if cls.FW_ITEMS is None:
            import json, os
            items = []
            for cpu in sorted(progs.corpus()):
                for l in progs.corpus()[cpu]:
                    if ":" in l[0]:
                        continue
                    for m in NUM_RE.finditer(l[0]):
                        items.append((cpu, l[0][:m.start()] + "fw_lab" + l[0][m.end():]))
            mn = json.load(open(os.path.join(VERIF, "corpus", "mnemonics.json")))
            for cpu in sorted(mn):
                for m in mn[cpu]:
                    items.append((cpu, "%s fw_lab" % m))
            cls.FW_ITEMS = [(cpu, line, c) for cpu, line in items for c in range(len(cls.FW_CONTEXTS))]
        return cls.FW_ITEMS

    def directed(self):
        return len(DIMS) * 3 + (len(self.fw_items()) + self.FW_PER_RUN - 1) // self.FW_PER_RUN

    def plan(self, rng, index):
        if len(DIMS) * 3 <= index < self.directed():
            k = (index - len(DIMS) * 3) * self.FW_PER_RUN
            return {"kind": "fwsweep", "items": [list(t) for t in self.fw_items()[k:k + self.FW_PER_RUN]]}
        prog = progs.gen_program(rng, nstmts=rng.range(2, 14))
        if rng.chance(1, 3):
            # forward references: an instruction (or .dw / .ifdef) naming a label that is defined further down - pass 1 has to
            # guess its size, pass 2 knows it; nothing of the guess may survive into the file
            w = "%x" % rng.below(1 << 20)
            lines = [l[0] for l in progs.corpus().get(prog["cpu"], []) if NUM_RE.search(l[0]) and ":" not in l[0]]
            # (instructions naming a later label are swept exhaustively and seed-independently, see fw_items)
            kind = rng.pick(["dw", "ifdef"])
            prog["fw_kind"] = kind
            for _ in range(rng.range(1, 3)):
                if kind == "instruction":
                    line = rng.pick(lines)
                    m = list(NUM_RE.finditer(line))
                    m = m[rng.below(len(m))]
                    stmt = ["  " + line[:m.start()] + "fw_%s" % w + line[m.end():]]
                elif kind == "dw":
                    stmt = [".dw fw_%s" % w]
                else:
                    stmt = [".ifdef fw_%s" % w, ".db 1", ".else", ".db 2, 3, 4", ".endif"]
                prog["stmts"].insert(rng.range(1, len(prog["stmts"])), stmt)
            for _ in range(rng.below(3)):
                prog["stmts"].append([".db %d" % rng.below(256)])
            prog["stmts"].append(["fw_%s:" % w])
            prog["stmts"].append([".db 9"])
        if rng.chance(1, 4):
            # one symbol given three values in turn with .set, and used after each: every use sees the value in force there -
            # in pass 2 as in pass 1.  The twin program has the values written out.
            w = "%x" % rng.below(1 << 20)
            twin = copy.deepcopy(prog)
            at = 1
            for v in [rng.below(256) for _ in range(3)]:
                at = rng.range(at, len(prog["stmts"]))
                for pr, use in ((prog, ".db RS_%s" % w), (twin, ".db %d" % v)):
                    pr["stmts"][at:at] = [[".set RS_%s=%d" % (w, v)], [use]]
                at += 2
            prog["twin"] = twin["stmts"]
        if rng.chance(1, 8) and not prog.get("fw_kind") and not prog.get("twin"):
            # data placed before the CPU is selected (the default CPU's address units apply there, in both passes)
            prog["stmts"][0:0] = [[".org 0x%x" % rng.pick([0x10, 0x100, 0x1000])], [".db %d, %d" % (rng.below(256), rng.below(256))]]
            prog["cpu_late"] = True
        typ = rng.pick(TYPES)
        perts = []
        n = rng.range(4, 10)
        for j in range(n):
            dim = DIMS[(index + j) % len(DIMS)] if index < len(DIMS) * 3 else rng.pick(DIMS)
            p = {"dim": dim}
            if "clock" in dim:
                p["clock0"] = rng.pick([0, 86399, 86400, 946684799, 946684800, 1291231234, 1735689599, 2147483647, 4102444800, rng.below(1 << 32)])
            if "heap" in dim:
                p["heap_fill"] = rng.range(1, 3)
                p["heap_seed"] = rng.u64()
            if "stack" in dim:
                p["stack_fill"] = rng.range(1, 3)
                p["stack_seed"] = rng.u64()
            if dim == "chunk":
                p["chunk_seed"] = rng.u64() | 1
            if "flags" in dim:
                p["flags"] = rng.subset(["-l", "-q", "-dump_symbols", "-dump_macros"], 1, 2) or ["-l"]
            if "name" in dim:
                p["out"] = rng.pick(["other.bin", "x", "dir/deep/name.with.dots.out", "OUT.HEX", "a.asm.out", "o" * 200 + ".elf",
                                     "firmware", "dir.d/out", ".hidden", "a.b.c"])
            if dim == "type":
                p["type"] = rng.pick([t for t in ("hex", "srec", "elf", "bin", "wdc", "uf2") if t != typ])
            if dim == "history-main":
                hist = []
                for _ in range(rng.range(1, 3)):
                    h = progs.gen_program(rng, nstmts=rng.range(1, 8), allow_includes=False)
                    if rng.chance(1, 3):
                        h["stmts"].append(rng.pick([["  bogus_instruction r1"], [".db 256"], [".org"], ['.include "missing.inc"'], [".big_endian"], [".if 1"]]))
                    hist.append({"src": progs.render(h), "type": rng.pick(TYPES), "flags": rng.subset(["-l", "-q", "-dump_symbols"], 1, 3)})
                p["history"] = hist
            if dim == "history-api":
                hist = []
                for _ in range(rng.range(1, 3)):
                    h = progs.gen_program(rng, nstmts=rng.range(1, 6), allow_includes=False)
                    if rng.chance(1, 4):
                        h["stmts"].append(["  bogus_instruction r1"])
                    hist.append({"cpu": h["cpu"], "code": "\n".join("\n".join(s) for s in h["stmts"][1:]) + "\n"})
                p["history"] = hist
            perts.append(p)
        pad = 0
        if rng.chance(1, 12):
            # a tall source: one of the statements sits on source line 2^16 - 1 (or 2^15 - 1, 2^17 - 1): the image keeps a source
            # line number per byte, and what the writers do with it must not depend on the output type
            nlines = max(progs.render(prog).count("\n"), 2)
            pad = rng.pick([65535, 65535, 65535, 32767, 131071]) - rng.range(2, nlines)
        return {"prog": prog, "type": typ, "perts": perts, "pad_lines": pad}

    def run_fwsweep(self, ex, plan):
        res = RunResult()
        digests = []
        for cpu, line, c in plan["items"]:
            org, tail = self.FW_CONTEXTS[c]
            src = ".%s\n.org 0x%x\n  %s\n%sfw_lab:\n.db 9\n" % (cpu, org, line, tail)
            o = ex.call(build_request(MODE_ASM, ["naken_asm", "-type", "bin", "-o", "out.bin", "a.asm"], {"/sim/w/a.asm": src.encode()},
                                      env={"event_ceiling": 2000000}, cpu_ms=8000))
            res.absorb(o)
            digests.append(o.digest())
            if o.kind() != "exit":
                res.probe("fwsweep_abnormal_termination_left_to_C16")
                continue
            if o.status != 0:
                res.probe("fwsweep_rejected")
                continue
            res.probe("fwsweep_accepted")
            res.nontrivial = True
            if o.counters[-3]:
                res.viol("pass1-residue:image-holds-bytes-pass-2-never-wrote:instruction-naming-a-label-defined-later:%s" % cpu,
                         nbytes=o.counters[-3], first="0x%x" % o.counters[-2], src=src)
        res.digest = plan_hash(digests)
        return res

    def run(self, ex, plan):
        if plan.get("kind") == "fwsweep":
            return self.run_fwsweep(ex, plan)
        res = RunResult()
        prog = plan["prog"]
        typ = plan["type"]
        files = progs.fs_for(prog)
        if plan.get("pad_lines"):
            first, rest = files["/sim/w/a.asm"].split(b"\n", 1)
            files["/sim/w/a.asm"] = first + b"\n" + b"\n" * plan["pad_lines"] + rest
            res.probe("tall_source")
        digests = []

        def asm(argv, env=None, extra_files=None, faults=(), build=None):
            f = dict(files)
            if extra_files:
                f.update(extra_files)
            e = {"clock0": 1291231234, "event_ceiling": 5000000}
            e.update(env or {})
            o = self.variant(ex, build).call(build_request(MODE_ASM, ["naken_asm"] + argv, f, faults, env=e, cpu_ms=10000))
            res.absorb(o)
            digests.append(o.digest())
            return o

        def outfile(o, name):
            for p, k, d in o.delta:
                if p == "/sim/w/" + name and k == 0:
                    return d
            return None

        r0 = asm(["-type", typ, "-o", "out.bin", "a.asm"])
        if r0.kind() != "exit":
            res.probe("reference_abnormal_termination_left_to_C16")
            res.digest = plan_hash(digests)
            return res
        ref = outfile(r0, "out.bin")
        ref_status = r0.status
        if ref_status != 0:
            res.probe("reference_rejected")
        else:
            res.probe("reference_accepted")
            stale, first = r0.counters[-3], r0.counters[-2]
            if stale:
                # hook H2: bytes of the written image that were last written by pass 1 - the file carries something pass 2
                # never produced (what the statement calls contents of memory left by a previous pass)
                fk = prog.get("fw_kind")
                if r0.counters[-4]:
                    # the program assembles over addresses it has already assembled (an .org that goes back): the notes and
                    # data of pass 1 for one statement lie where pass 2 assembles another - one finding whatever the statements are
                    fk = "rewrite"
                what = {"rewrite": "program-assembles-over-addresses-it-already-assembled", "instruction": "instruction-naming-a-label-defined-later:%s" % prog["cpu"], "dw": "dw-naming-a-label-defined-later",
                        "ifdef": "ifdef-on-a-label-defined-later", None: "no-forward-reference:%s" % prog["cpu"]}[fk]
                res.viol("pass1-residue:image-holds-bytes-pass-2-never-wrote:%s" % what, nbytes=stale, first="0x%x" % first,
                         src=progs.render(prog)[:700])
            else:
                res.probe("no_pass1_residue")
        api_ref = None
        api_mask = None

        for p in plan["perts"]:
            dim = p["dim"]
            env = {}
            for k in ("clock0", "heap_fill", "heap_seed", "stack_fill", "stack_seed", "chunk_seed"):
                if k in p:
                    env[k] = p[k]
            name = p.get("out", "out.bin")
            t = p.get("type", typ)
            argv = p.get("flags", []) + ["-type", t, "-o", name, "a.asm"]
            extra = {}
            if "/" in name:
                extra["/sim/w/" + name.rsplit("/", 1)[0]] = None
            if dim == "history-main":
                # same process: earlier programs through main(), then P
                w = W()
                steps = []
                hfiles = {}
                for hi, h in enumerate(p["history"]):
                    hfiles["/sim/w/h%d.asm" % hi] = h["src"].encode("latin-1")
                    steps.append(["naken_asm"] + h["flags"] + ["-type", h["type"], "-o", "h%d.out" % hi, "h%d.asm" % hi])
                steps.append(["naken_asm"] + argv)
                w.u32(len(steps))
                for st in steps:
                    w.u8(0)
                    w.u32(len(st))
                    for a in st:
                        w.bytes(a)
                f = dict(files)
                f.update(hfiles)
                o = ex.call(build_request(MODE_INPROC, [], f, env={"clock0": 1291231234, "event_ceiling": 5000000}, extra=bytes(w.b), cpu_ms=15000))
                res.absorb(o)
                digests.append(o.digest())
                res.nontrivial = True
                if o.kind() != "exit":
                    res.probe("history_abnormal_termination_left_to_C16")
                    continue
                r = R(o.extra)
                n = r.u32()
                sts = []
                for _ in range(n):
                    r.u8()
                    sts.append(struct.unpack("<i", struct.pack("<I", r.u32()))[0])
                got = outfile(o, name)
                if sts[-1] != ref_status:
                    res.viol("history-main:exit-status-differs", ref=ref_status, got=sts[-1], history=[s["src"][:200] for s in p["history"]], tail=o.text()[-400:])
                elif ref_status == 0:
                    a, b = got, ref
                    if typ == "srec" and a is not None:
                        a, b = strip_s0(a), strip_s0(b)
                    if a != b:
                        res.viol("history-main:output-differs:%s" % typ, first_diff=first_diff(a, b), history=[s["src"][:300] for s in p["history"]])
                res.probe("dim:history-main")
                continue
            if dim == "history-api":
                cpu = prog["cpu"]
                code = "\n".join("\n".join(s) for s in prog["stmts"][1:]) + "\n"
                if prog["files"]:
                    res.probe("history_api_skipped_includes")
                    continue
                if api_ref is None:
                    api_mask = None
                    api_ref = self.api_call(ex, res, digests, [{"cpu": cpu, "code": code}], None)
                    if api_ref is None:
                        continue
                st0, org0, lo0, hi0, base0, bytes0 = api_ref
                rng_dump = (lo0, hi0) if st0 == 0 and lo0 <= hi0 else None
                got = self.api_call(ex, res, digests, p["history"] + [{"cpu": cpu, "code": code}], rng_dump)
                res.nontrivial = True
                if got is None:
                    continue
                st1, org1, lo1, hi1, base1, bytes1 = got
                if st1 != st0:
                    res.viol("history-api:status-differs", ref=st0, got=st1, history=[h["code"][:200] for h in p["history"]])
                elif st0 == 0 and rng_dump is None:
                    res.probe("history_api_empty_image")
                    if org1 != org0:
                        res.viol("history-api:next-origin-differs", org=(org0, org1))
                elif st0 == 0:
                    # the interactive asm command writes what it assembles into the image it shares with the rest of the session:
                    # only the bytes the block itself assembles are compared (those that are the same whether the fresh image was
                    # zero or 0xff before), the gaps between its .org's keep what the history left there
                    if api_mask is None:
                        ff = self.api_call(ex, res, digests, [{"cpu": cpu, "code": code, "kind": 3}], rng_dump)
                        api_mask = [i for i in range(len(bytes0)) if ff is not None and i < len(ff[5]) and ff[5][i] == bytes0[i]]
                    b1 = bytes(bytes1[i] for i in api_mask if i < len(bytes1))
                    b0 = bytes(bytes0[i] for i in api_mask)
                    if b1 != b0 or org1 != org0:
                        res.viol("history-api:image-differs", first_diff=first_diff(b1, b0), org=(org0, org1),
                                 history=[(h["cpu"], h["code"][:300]) for h in p["history"]])
                res.probe("dim:history-api")
                continue
            if dim == "inline-set":
                if not prog.get("twin") or prog.get("fw_kind"):
                    res.probe("inline_set_not_applicable")
                    continue
                extra = dict(extra)
                extra["/sim/w/a.asm"] = ("\n".join("\n".join(st) for st in prog["twin"]) + "\n").encode("latin-1")
                res.probe("inline_set_compared")
            if dim == "default-cpu":
                # the default CPU is the MSP430: the program without its .msp430 directive is the same program
                if prog["cpu"] != "msp430" or prog["stmts"][0] != [".msp430"] or prog["files"]:
                    res.probe("default_cpu_not_applicable")
                    continue
                bare = dict(prog, stmts=prog["stmts"][1:])
                extra = dict(extra)
                extra["/sim/w/a.asm"] = progs.render(bare).encode("latin-1")
                res.probe("default_cpu_compared")
            o = asm(argv, env, extra, build="small" if dim == "build" else None)
            if env or dim == "build":
                res.nontrivial = True
            if o.kind() != "exit":
                res.probe("perturbed_abnormal_termination_left_to_C16")
                continue
            got = outfile(o, name)
            res.probe("dim:" + dim)
            if o.status != ref_status:
                res.viol("%s:exit-status-differs" % dim, ref=ref_status, got=o.status, pert=p, tail=o.text()[-300:])
                continue
            if ref_status != 0:
                if got is not None:
                    res.viol("%s:output-file-after-failure" % dim, pert=p)
                continue
            if got is None:
                res.viol("%s:no-output-file" % dim, pert=p, tail=o.text()[-300:])
                continue
            if dim == "type":
                self.compare_types(res, typ, ref, t, got, prog)
                continue
            a, b = got, ref
            if typ == "srec" and "clock" in dim:
                a, b = strip_s0(a), strip_s0(b)
            if a != b:
                res.viol("%s:output-differs:%s" % (dim, typ), first_diff=first_diff(a, b), pert={k: v for k, v in p.items() if k != "history"})
            if "flags" in p and "-l" in p["flags"] and dim == "flags":
                lst = name.rsplit(".", 1)[0] + ".lst" if "." in name[1:] else name + ".lst"
                if outfile(o, lst) is None:
                    res.viol("flags:listing-not-produced", pert=p, delta=[pp for pp, k, d in o.delta])
        res.digest = plan_hash(digests)
        return res

    def api_call(self, ex, res, digests, steps, dump):
        w = W()
        w.u32(len(steps))
        for i, s in enumerate(steps):
            w.u8(s.get("kind", 1))
            w.bytes(s["cpu"])
            w.bytes(s["code"])
            w.u32(0)
            last = i == len(steps) - 1
            if last and dump is not None:
                w.u32(dump[0])
                w.u32(dump[1])
            else:
                w.u32(1)
                w.u32(0)
        o = ex.call(build_request(MODE_INPROC, [], {}, env={"event_ceiling": 5000000}, extra=bytes(w.b), cpu_ms=15000))
        res.absorb(o)
        digests.append(o.digest())
        if o.kind() != "exit":
            res.probe("api_abnormal_termination_left_to_C16")
            return None
        r = R(o.extra)
        n = r.u32()
        out = None
        for _ in range(n):
            r.u8()
            st = struct.unpack("<i", struct.pack("<I", r.u32()))[0]
            org = r.u32()
            lo = r.u32()
            hi = r.u32()
            base = r.u32()
            b = r.bytes()
            out = (st, org, lo, hi, base, b)
        return out

    def compare_types(self, res, t0, d0, t1, d1, prog):
        def image(t, d):
            if t in decoders.DECODERS:
                mem, meta, problems = decoders.DECODERS[t](d)
                return mem
            return None
        if t0 == "bin" or t1 == "bin" or t0 not in decoders.DECODERS or t1 not in decoders.DECODERS:
            # bin carries no address: compare against the other image's span
            other_t, other_d, bin_d = (t1, d1, d0) if t0 == "bin" else (t0, d0, d1)
            if other_t not in decoders.DECODERS or "bin" not in (t0, t1):
                res.probe("type_pair_without_decoder")
                return
            mem = image(other_t, other_d)
            if not mem:
                return
            lo, hi = min(mem), max(mem)
            if other_t == "uf2":
                hi = lo + len(bin_d) - 1
            if len(bin_d) != hi - lo + 1 and other_t != "elf":
                res.viol("type:bin-length-vs-%s" % other_t, bin=len(bin_d), span=hi - lo + 1)
                return
            for i, b in enumerate(bin_d):
                if mem.get(lo + i, 0) != b:
                    res.viol("type:image-differs:bin-vs-%s" % other_t, offset=i, bin=b, other=mem.get(lo + i))
                    return
            res.probe("type_pair_compared")
            return
        m0, m1 = image(t0, d0), image(t1, d1)
        sparse = ("hex", "srec", "wdc")
        keys = set(m0) | set(m1)
        for a in sorted(keys):
            v0, v1 = m0.get(a), m1.get(a)
            if v0 == v1:
                continue
            # contiguous formats may carry zero-filled gaps / padding that sparse ones omit
            if v0 is None and v1 == 0 and t1 not in sparse:
                continue
            if v1 is None and v0 == 0 and t0 not in sparse:
                continue
            res.viol("type:image-differs:%s-vs-%s" % tuple(sorted([t0, t1])), addr="0x%x" % a, a=v0, b=v1)
            return
        res.probe("type_pair_compared")

    def shrink(self, plan):
        if plan.get("kind") == "fwsweep":
            for it in plan["items"]:
                if len(plan["items"]) > 1:
                    yield {"kind": "fwsweep", "items": [it]}
            return
        for i in range(len(plan["perts"])):
            if len(plan["perts"]) > 1:
                c = copy.deepcopy(plan)
                c["perts"] = [plan["perts"][i]]
                yield c
        stmts = plan["prog"]["stmts"]
        for i in range(len(stmts) - 1, 0, -1):
            c = copy.deepcopy(plan)
            del c["prog"]["stmts"][i]
            yield c
        for name in sorted(plan["prog"]["files"]):
            c = copy.deepcopy(plan)
            del c["prog"]["files"][name]
            yield c
        for i, p in enumerate(plan["perts"]):
            if "history" in p and len(p["history"]) > 1:
                for j in range(len(p["history"])):
                    c = copy.deepcopy(plan)
                    del c["perts"][i]["history"][j]
                    yield c
        if plan["type"] != "hex":
            c = copy.deepcopy(plan)
            c["type"] = "hex"
            for p in c["perts"]:
                if p.get("type") == "hex":
                    p["type"] = "bin"
            yield c


def first_diff(a, b):
    if a is None or b is None:
        return "missing"
    n = min(len(a), len(b))
    for i in range(n):
        if a[i] != b[i]:
            return {"offset": i, "got": a[max(0, i - 8):i + 8].hex(), "ref": b[max(0, i - 8):i + 8].hex(), "len": (len(a), len(b))}
    return {"offset": n, "len": (len(a), len(b))}
