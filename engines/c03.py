"""C03 - every output format carries exactly the assembled memory image.

Run = a seeded byte map rendered as .org/.db source; for each of the six
formats the statement names: real naken_asm writes the file onto SimFs (stale
longer file already at the path, seeded clock), an independent reference
decoder reads it back, and a real naken_util lifetime loads it and prints the
image.  Two real programs communicating through the simulated disk.
"""
import copy
import re

from vlib.core import *
from vlib.framework import Engine, RunResult
from vlib import progs, images, decoders

FORMATS = ["hex", "srec", "elf", "wdc", "uf2", "bin", "macho"]
SPARSE = ("hex", "srec", "wdc")          # skip unwritten bytes
CONTIG = ("elf", "uf2", "bin", "amiga", "macho")           # serialise the whole span low..high


class C03(Engine):
    prop = "C03"
    title = "every output format carries exactly the assembled memory image"
    quick_budget = 90
    quick_runs = 5000
    thorough_budget = 900
    variants = ("small",)
    rule = ("run i = seeded byte map (1-5 segments; lengths biased to 1,15,16,17,255,256,257; gaps 0,1,15,16,65535,65536; bases at "
            "0, 0xfff0, 0x10000, 0xfffff0, 0x1000000, 0x7ffffff0, near 2^32; CPUs with 1/2/4/8 bytes per address, both byte orders, "
            "all three S-record sizes; optional entry point and exported labels) rendered with .org/.db only -> real naken_asm -type t "
            "for t in hex,srec,elf,wdc,uf2,bin,macho (and amiga for 68000 images) onto SimFs with a stale longer file at the output path -> (a) independent decoder from the "
            "published format, (b) real naken_util load + print of windows around every segment edge + symbols.  "
            "Distinct = distinct seam-event hash; non-trivial = the file crossed between two simulated process lifetimes through SimFs "
            "(every writer->reader pair does) with at least two segments or a stale file present.")
    assumptions = [".org and .db with literal byte values are trusted to place bytes (the only assumption about the assembler proper)",
                   "elf/uf2/bin/macho/amiga serialise the whole span: extra decoded addresses must lie inside the span/padding and hold 0",
                   "wdc is only asked to carry addresses < 2^24",
                   "an Amiga hunk and a relocatable Mach-O object carry no address: bytes are compared from the lowest address up, load-back only for images at 0",
                   "some runs use a tall source (image on source lines around 2^15/2^16/2^17)",
                   "uf2 blocks of another familyID (the RP2350 0x10ffff00 filler) are ignored as the UF2 specification tells a boot loader to"]

    def directed(self):
        return len(images.IMAGE_CPUS)

    def plan(self, rng, index):
        cpu = images.IMAGE_CPUS[index % len(images.IMAGE_CPUS)] if index < self.directed() else None
        img = images.gen_image(rng, cpu=cpu)
        fmts = list(FORMATS) if rng.chance(1, 2) else rng.subset(FORMATS, 1, 2) or [rng.pick(FORMATS)]
        if img["cpu"] == "68000" and (index < self.directed() or rng.chance(2, 3)):
            fmts.append("amiga")         # hunk files carry no address and naken_util loads them as 68000 code
        return {"cpu": img["cpu"], "segments": [[a, d.hex()] for a, d in img["segments"]], "entry": img["entry"],
                "exports": img["exports"], "formats": fmts,
                "stale": rng.pick([0, 0, 100, 5000, 200000]), "clock0": 1000000000 + rng.below(10 ** 9),
                "chunk_seed": rng.u64() if rng.chance(1, 3) else 0,
                "flags": rng.subset(["-l", "-q"], 1, 4),
                "build": rng.pick(["san", "san", "small"]),
                # where the source lives must not matter to what the file carries (ELF stores the name)
                "srcpath": rng.pick(["a.asm", "a.asm", "src/a.asm", "./a.asm", "/sim/w/deep/dir/prog.asm", "../w/a.asm", "x/../a.asm"]),
                "pad_lines": (rng.pick([32760, 65528, 65530, 65532, 131064]) + rng.below(6)) if rng.chance(1, 20) else 0,
                # the type of a file is told by what follows the LAST dot of its name, wherever it lives
                "outname": rng.pick(["out.%s", "out.%s", "./out.%s", "v1.2/out.%s", "a.b.%s", "rel.1/x.y.%s"]),
                # .align in front of a segment that starts on that boundary anyway, and after the last one: moves the address,
                # emits nothing
                "align": [rng.pick([0, 0, 2, 4, 16, 32, 256]) for _ in range(len(img["segments"]) + 1)] if rng.chance(1, 4) else None}

    def run(self, ex, plan):
        res = RunResult()
        ex0 = ex
        ex = self.variant(ex, plan.get("build"))
        cpu = plan["cpu"]
        info = progs.cpu_info(cpu)
        bpa = info["bpa"]
        img = {"cpu": cpu, "segments": [(a, bytes.fromhex(h)) for a, h in plan["segments"]], "entry": plan["entry"],
               "exports": [tuple(e) for e in plan["exports"]]}
        M = images.image_bytes(img)
        lo, hi = min(M), max(M)
        if plan.get("build") == "small" and hi - lo > (1 << 17):
            # the page list of the small-page build is searched linearly: wide images are slow there, not wrong
            ex = self.variant(ex0, "san")
            res.probe("small_build_skipped_wide_image")
        text = images.render_image(img)
        if plan.get("align"):
            out_lines = []
            seg_i = 0
            end_prev = -1
            for l in text.split("\n"):
                if l.startswith(".org "):
                    a, d = img["segments"][seg_i]
                    n = plan["align"][seg_i]
                    seg_i += 1
                    if n and a % n == 0 and a - (n - 1) > end_prev and a >= n and bpa == 1:
                        # start a few bytes early and let .align bring the address up to the segment's start
                        out_lines.append(".org 0x%x" % (a - (n - 1)))
                        out_lines.append(".align_bytes %d" % n)
                        res.probe("align_before_segment")
                        end_prev = a + len(d) - 1
                        continue
                    end_prev = a + len(d) - 1
                if l.startswith(".export") and plan["align"][-1] and bpa == 1 and "@@tail" not in out_lines:
                    pass
                out_lines.append(l)
            if plan["align"][-1] and bpa == 1:
                # after the last byte: nothing follows, nothing may be added
                idx = max(i for i, l in enumerate(out_lines) if l.startswith(".db "))
                out_lines.insert(idx + 1, ".align_bytes %d" % plan["align"][-1])
                res.probe("align_after_last_byte")
            text = "\n".join(out_lines)
        if plan.get("pad_lines"):
            # a tall source: the data sits on source lines around 2^15, 2^16, 2^17 (line numbers are kept per byte of the image)
            first, rest = text.split("\n", 1)
            text = first + "\n" + "\n" * plan["pad_lines"] + rest
            res.probe("tall_source")
        src = text.encode()
        digests = []
        for fmt in plan["formats"]:
            if fmt in CONTIG and hi - lo > (1 << 20):
                res.probe("skipped_wide_span_" + fmt)
                continue
            if fmt == "wdc" and hi >= (1 << 24):
                res.probe("skipped_wdc_above_24_bits")
                continue
            # (SREC_16 means "record size chosen per line from the address", and SREC_24 writes S3 records for addresses
            # that need them: no S-record size limit below 2^32)
            oname = plan.get("outname", "out.%s") % fmt
            out = "/sim/w/" + oname[2:] if oname.startswith("./") else "/sim/w/" + oname
            srcpath = plan.get("srcpath", "a.asm")
            files = {(srcpath if srcpath.startswith("/") else "/sim/w/" + srcpath): src}
            if "x/.." in srcpath:
                files["/sim/w/x/.keep"] = b""
            if "/" in oname[2:]:
                files["/sim/w/" + oname.rsplit("/", 1)[0] + "/.keep"] = b""
            if plan["stale"]:
                files[out] = b"\xa5" * plan["stale"]
            env = {"clock0": plan["clock0"], "chunk_seed": plan["chunk_seed"], "event_ceiling": 50000000}
            o = ex.call(build_request(MODE_ASM, ["naken_asm"] + plan["flags"] + ["-type", fmt, "-o", oname, srcpath],
                                      files, env=env, cpu_ms=10000))
            res.absorb(o)
            digests.append(o.digest())
            if len(img["segments"]) > 1 or plan["stale"]:
                res.nontrivial = True
            if o.kind() != "exit":
                res.probe("abnormal_termination_left_to_C16")
                ck = crash_key(o, fmt)
                res.viol("writer-crash:%s:%s" % (fmt, ck), stderr=o.stderr.decode("latin-1")[:600])
                continue
            if o.status != 0:
                res.viol("assembler-rejected-org-db-program:%s" % fmt, tail=o.text()[-400:])
                continue
            data = None
            for p, k, d in o.delta:
                if p == out and k == 0:
                    data = d
            if data is None:
                res.viol("no-output-file:%s" % fmt)
                continue
            # ---- (a) independent decode
            if fmt == "bin":
                mem, meta, problems = decoders.decode_bin(data, lo)
                if len(data) != hi - lo + 1:
                    res.viol("decode:bin:length", got=len(data), want=hi - lo + 1)
            elif fmt == "amiga":
                mem, meta, problems = decoders.decode_amiga(data, lo)
            elif fmt == "macho":
                mem, meta, problems = decoders.decode_macho(data, lo)
            else:
                mem, meta, problems = decoders.DECODERS[fmt](data)
            for pr in problems[:1]:
                key = re.sub(r"0x[0-9a-f]+|\d+", "N", pr)[:50].replace(" ", "-")
                res.viol("decode:%s:%s" % (fmt, key), problem=pr, nproblems=len(problems))
            bad = None
            for a in M:
                if mem.get(a) != M[a]:
                    bad = a
                    break
            if bad is not None:
                res.viol("decode:%s:%s" % (fmt, "missing-address" if bad not in mem else "wrong-byte"),
                         addr="0x%x" % bad, got=mem.get(bad), want=M[bad], lo="0x%x" % lo, hi="0x%x" % hi, bpa=bpa)
            extra = [a for a in mem if a not in M]
            if extra:
                if fmt in SPARSE:
                    res.viol("decode:%s:extra-address" % fmt, addr="0x%x" % min(extra), n=len(extra), lo="0x%x" % lo, hi="0x%x" % hi)
                else:
                    pad_hi = hi + (256 if fmt == "uf2" else info["align"] + 16)
                    # padding of the last block may run past 2^32 when the image ends at the top of the address space
                    out_of_span = [a for a in extra if ((a - lo) & 0xffffffff) > pad_hi - lo]
                    nonzero = [a for a in extra if mem[a] != 0]
                    if out_of_span:
                        res.viol("decode:%s:extra-address-outside-span" % fmt, addr="0x%x" % min(out_of_span), n=len(out_of_span))
                    elif nonzero:
                        res.viol("decode:%s:nonzero-gap-byte" % fmt, addr="0x%x" % min(nonzero), val=mem[min(nonzero)])
            if fmt in ("elf", "macho"):
                for name, addr in img["exports"]:
                    sym = meta["symbols"].get(name)
                    if sym is None:
                        res.viol("decode:%s:exported-symbol-missing" % fmt, name=name, have=sorted(meta["symbols"])[:6])
                    elif sym[0] != addr // bpa and sym[0] != addr:
                        kind = "exported-symbol-value"
                        if bpa > 1 and addr >= 0x80000000 and sym[0] == ((addr - (1 << 32)) // bpa) & 0xffffffff:
                            kind = "exported-symbol-value-sign-extended-above-2^31-bpa>1"
                        res.viol("decode:%s:" % fmt + kind, name=name, got="0x%x" % sym[0], want="0x%x" % (addr // bpa))
                if fmt == "elf" and img["entry"] is not None and meta["entry"] not in (img["entry"], img["entry"] // bpa):
                    res.viol("decode:elf:entry", got="0x%x" % (meta["entry"] or 0), want="0x%x" % (img["entry"] // bpa))
            if fmt == "srec" and img["entry"] is not None and meta.get("entry") not in (img["entry"], img["entry"] // bpa):
                res.viol("decode:srec:entry", got=meta.get("entry"), want="0x%x" % (img["entry"] // bpa))

            # ---- (b) load back with the real naken_util
            windows = []
            for a, d in img["segments"]:
                for edge in (a, a + len(d)):
                    wlo = max(lo, edge - 24)
                    whi = min(hi + 1, edge + 24)
                    wlo -= wlo % bpa
                    whi += (-whi) % bpa
                    if whi > wlo:
                        windows.append((wlo, whi))
            windows = sorted(set(windows))[:12]
            console = ["print 0x%x-0x%x" % (w0 // bpa, w1 // bpa) for w0, w1 in windows]
            if img["exports"]:
                console.append("symbols")
            console.append("quit")
            argv = ["naken_util", "-" + cpu]
            if fmt in ("amiga", "macho") and lo != 0:
                res.probe("%s_loadback_skipped_image_not_at_0" % fmt)     # a hunk / a relocatable object has no address: loaded at 0
                continue
            if fmt == "bin":
                if bpa != 1:
                    res.probe("bin_loadback_skipped_bpa")
                    continue
                argv += ["-bin", "-address", "0x%x" % lo]
            argv.append(oname)
            u = ex.call(build_request(MODE_UTIL, argv, {out: data}, console=console,
                                      env={"chunk_seed": plan["chunk_seed"], "event_ceiling": 50000000}, cpu_ms=10000))
            res.absorb(u)
            digests.append(u.digest())
            if u.kind() != "exit":
                res.viol("reader-crash:%s:%s" % (fmt, crash_key(u, fmt)), stderr=u.stderr.decode("latin-1")[:600])
                continue
            text = u.text()
            m = re.search(r"Loaded \S+ of type (\w+) / (\S+) from 0x([0-9a-f]+) to 0x([0-9a-f]+)", text)
            if not m:
                res.viol("loadback:%s:rejected-own-output" % fmt, tail=text[-300:], lo="0x%x" % lo, hi="0x%x" % hi)
                continue
            l_lo, l_hi = int(m.group(3), 16), int(m.group(4), 16)
            if l_lo != lo and fmt != "uf2":
                res.viol("loadback:%s:low-address" % fmt, got="0x%x" % l_lo, want="0x%x" % lo)
            if fmt in ("hex", "srec", "wdc", "bin") and l_hi != hi:
                res.viol("loadback:%s:high-address" % fmt, got="0x%x" % l_hi, want="0x%x" % hi)
            if fmt == "elf" and not (hi <= l_hi < hi + max(info["align"], 4) + 16):
                res.viol("loadback:elf:high-address", got="0x%x" % l_hi, want="0x%x" % hi)
            # printed windows
            segs = text.split("stopped> ")
            wi = 0
            for seg in segs[1:]:
                if not seg.startswith("print "):
                    continue
                w0, w1 = windows[wi]
                wi += 1
                for l in seg.split("\n")[1:]:
                    mm = re.match(r"^0x([0-9a-f]+):", l)
                    if not mm:
                        continue
                    units = int(mm.group(1), 16)
                    rest = l[mm.end():]
                    stop = False
                    for g in range(16):
                        tok = rest[g * 3:(g + 1) * 3]
                        if len(tok) == 3 and tok[0] == " " and re.match(r"^[0-9a-f]{2}$", tok[1:]):
                            a = units * bpa + g
                            if lo <= a <= hi and int(tok[1:], 16) != M.get(a, 0):
                                res.viol("loadback:%s:%s" % (fmt, "wrong-byte" if a in M else "nonzero-gap-byte"), addr="0x%x" % a,
                                         got=tok[1:], want="%02x" % M.get(a, 0), lo="0x%x" % lo, hi="0x%x" % hi, bpa=bpa)
                                stop = True
                                break
                        else:
                            break
                    if stop:
                        break
            if wi != len(windows):
                res.unparsed += 1
            if img["exports"] and fmt == "elf":
                for name, addr in img["exports"]:
                    ms = re.search(r"^\s*%s\s+([0-9a-f]+)" % re.escape(name), text, re.M)
                    if not ms:
                        res.viol("loadback:elf:symbol-missing", name=name)
                    elif int(ms.group(1), 16) not in (addr, addr // bpa):
                        kind = "symbol-value"
                        if bpa > 1 and addr >= 0x80000000 and int(ms.group(1), 16) == ((addr - (1 << 32)) // bpa) & 0xffffffff:
                            kind = "symbol-value-sign-extended-above-2^31-bpa>1"
                        res.viol("loadback:elf:" + kind, name=name, got=ms.group(1), want="%x" % (addr // bpa))
            res.probe("roundtrip:" + fmt)
        res.digest = plan_hash(digests)
        res.probe("bpa:%d" % bpa)
        return res

    def shrink(self, plan):
        if len(plan["formats"]) > 1:
            for f in plan["formats"]:
                c = copy.deepcopy(plan)
                c["formats"] = [f]
                yield c
        for i in range(len(plan["segments"])):
            if len(plan["segments"]) > 1:
                c = copy.deepcopy(plan)
                del c["segments"][i]
                lo = min(a for a, h in c["segments"])
                c["exports"] = [e for e in c["exports"] if any(a <= e[1] < a + len(h) // 2 for a, h in c["segments"])]
                if c["entry"] is not None and not any(a <= c["entry"] < a + len(h) // 2 for a, h in c["segments"]):
                    c["entry"] = None
                yield c
        for i, (a, h) in enumerate(plan["segments"]):
            if len(h) > 2:
                for keep in (len(h) // 4 * 2, len(h) - 2):
                    if keep >= 2:
                        c = copy.deepcopy(plan)
                        c["segments"][i][1] = h[:keep]
                        c["exports"] = [e for e in c["exports"] if any(x <= e[1] < x + len(y) // 2 for x, y in c["segments"])]
                        if c["entry"] is not None and not any(x <= c["entry"] < x + len(y) // 2 for x, y in c["segments"]):
                            c["entry"] = None
                        yield c
        for k in ("stale", "chunk_seed", "pad_lines"):
            if plan[k]:
                c = copy.deepcopy(plan)
                c[k] = 0
                yield c
        if plan["exports"]:
            c = copy.deepcopy(plan)
            c["exports"] = []
            yield c
        if plan["entry"] is not None:
            c = copy.deepcopy(plan)
            c["entry"] = None
            yield c
