"""C16 - naken_asm never crashes, hangs or corrupts memory, whatever the
source text / include path / option set.

One simulated naken_asm lifetime per run on a seeded workspace; the source
streams end, fail, recurse or vanish at planned points; oversized tokens,
macros, nesting and extreme addresses are stressors attached to the plan.
Oracle: the process leaves main by return/exit with status 0 or 1, prints a
diagnostic when the status is 1, no sanitizer report, inside its budgets.
"""
import os
import re

from vlib.core import *
from vlib.framework import Engine, RunResult
from vlib import progs

BOUNDARY = [127, 128, 129, 255, 256, 257, 511, 512, 513, 1023, 1024, 1025, 4095, 4096, 4097, 8191, 8192, 8193]

DIAG = re.compile(r"error|cannot|couldn't|unknown|illegal|invalid|missing|unexpected|expected|"
                  r"too (many|long|big|large)|unterminated|not (supported|found|allowed|defined)|"
                  r"out of range|overflow|usage:|no input|unmatched|already|exceeded|without|failed",
                  re.I)

STRESSORS = [
    # (name, weight)
    ("cut", 10), ("eio", 5), ("empty", 1), ("include-dir", 2), ("include-missing", 3),
    ("fd-limit", 3), ("self-include", 2), ("mutual-include", 2), ("define-self", 2),
    ("macro-recursive", 3), ("deep-if", 2), ("deep-paren", 2), ("long-token", 10),
    ("many-params", 2), ("nested-macros", 2), ("many-labels", 1), ("addr", 8), ("resb-align", 5),
    ("lowhigh", 3), ("garbage", 8), ("options", 5), ("many-I", 3), ("binfile", 4),
    ("token-mutation", 12), ("long-macro-body", 3), ("long-macro-arg", 3), ("obj-arg", 4),
    ("div-zero", 2), ("deep-include", 2), ("repeat-big", 2), ("string-edge", 4), ("scope", 2),
    ("addr-top", 1), ("none", 3), ("unary-chain", 2), ("int-min-div", 1), ("macro-arg-escapes", 2),
    ("truncate-instr", 12), ("suffix-chain", 3), ("out-write-fail", 6), ("empty-define-run", 2),
    ("directive-mix", 6),
]

# every directive of core/AsmContext.cpp / core/directives*.cpp with an operand it can take (input generation only)
DIRECTIVES = [".list", ".list", ".scope", ".ends", ".func f_%(w)s", ".endf", ".big_endian", ".little_endian", ".bss", ".code",
              ".align 16", ".align_bits 32", ".align_bytes 8", ".data_fill 0x55, 4", ".entry_point start_%(w)s", ".export lab_%(w)s",
              ".high_address 0xffff", ".low_address 0x0", ".device x", ".pragma x", ".msp430_cpu4", ".65816", ".set v_%(w)s = 5",
              "v2_%(w)s equ 7", ".def d_%(w)s 3", ".varuint 300", ".varuint32 70000", ".dc.w 1", ".dc.b 2", ".dc.l 3", ".dq 1", ".dc64 2",
              ".asciiz \"z\"", ".resw 2", ".end"]


def long_name(rng, n):
    return "".join(rng.pick("abcdefghijklmnopqrstuvwxyz_") for _ in range(n))


def pick_len(rng):
    if rng.chance(1, 12):
        return 70000
    return rng.pick(BOUNDARY) + rng.pick([0, 0, 0, -1, 1, 7])


class C16(Engine):
    prop = "C16"
    title = "naken_asm never crashes, hangs or corrupts memory"
    quick_budget = 90
    quick_runs = 14500
    thorough_budget = 1200
    variants = ("small",)
    thorough_runs = 100000
    rule = ("run i = one forked naken_asm lifetime (real main(), ASan+UBSan) on a seeded SimFs workspace: corpus-based "
            "program for a seeded CPU wrapped in macros/.if/.repeat/.include/.binfile, plus 1-3 stressors drawn from "
            "%d kinds (stream cut/EIO at swept offsets, vanished/recursive/directory includes, FD limits, damaged .o/.a "
            "arguments, buffer-boundary token lengths, deep nesting, extreme addresses, raw bytes, option sets, every directive between the statements); the first run indices after the stressor cells "
            "assemble every corpus instruction with a literal and every table mnemonic once with a boundary / extreme literal. "
            "Distinct = distinct seam-event hash (sequence of fopen/read/write/seek/close/unlink/exit events with sizes "
            "and outcomes); non-trivial = at least one injected fault actually fired in the run." % len(STRESSORS))
    assumptions = ["allocation failure is never injected (the statement does not quantify over OOM)",
                   "image span is kept <= 2^24 bytes except in the explicit addr-top probe (byte-wise writers are slow, not hung, on wider spans)",
                   "shift / signed-overflow / alignment UB is not monitored (outside the statement)"]

    def lit_sweep(self):
        from engines import c12
        return c12.C12.num_sweep()

    def directed(self):
        return len(STRESSORS) * 2 + len(self.lit_sweep())

    SWEEP = 41478      # thorough tier: one run per (corpus instruction, token boundary) of engines/c16t.py

    def plan(self, rng, index):
        plan = self._plan(rng, index)
        # every third run uses the small-page / small-pool build of /repo
        plan["build"] = "small" if index % 3 == 2 else "san"
        return plan

    def _plan(self, rng, index):
        if self.tier == "thorough" and self.directed() <= index < self.directed() + self.SWEEP:
            from engines import c16t
            return c16t.C16T(self.tier, self.seed).plan(rng, index - self.directed() + (self.seed % 9) * len(c16t.pairs()))
        if len(STRESSORS) * 2 <= index < self.directed():
            # every corpus instruction with a literal and every table mnemonic, the literal replaced by a boundary / extreme value
            from engines import c12
            cpu, line = self.lit_sweep()[index - len(STRESSORS) * 2]
            m = list(c12.NUM_LIT.finditer(line))
            m = m[rng.below(len(m))]
            v = rng.pick(c12.EXTREMES)
            line = line[:m.start()] + ("%d" % v if v < 0 or rng.chance(1, 2) else "0x%x" % v) + line[m.end():]
            return {"env": {"clock0": 1291231234, "heap_fill": rng.below(4), "heap_seed": rng.u64(), "stack_fill": rng.below(4),
                            "stack_seed": rng.u64(), "chunk_seed": 0, "fd_limit": 0},
                    "cpu": cpu, "files": {"/sim/w/a.asm": ".%s\n.org 0x%x\n  %s\n.db 7\n" % (cpu, rng.pick([0, 0x100, 0x1000]), line)},
                    "argv": ["-o", "out.hex", "a.asm"], "faults": [], "stressors": ["literal-extreme"]}
        prog = progs.gen_program(rng, nstmts=rng.range(1, 8))
        files = {k: v.decode("latin-1") for k, v in progs.fs_for(prog).items()}
        plan = {"env": {"clock0": 1291231234 + rng.below(10 ** 8), "heap_fill": rng.below(4), "heap_seed": rng.u64(),
                        "stack_fill": rng.below(4), "stack_seed": rng.u64(),
                        "chunk_seed": rng.u64() if rng.chance(1, 3) else 0, "fd_limit": 0},
                "cpu": prog["cpu"], "files": files, "argv": ["-o", "out.hex", "a.asm"], "faults": [], "stressors": []}
        if index < len(STRESSORS) * 2:
            kinds = [STRESSORS[index % len(STRESSORS)][0]]
        else:
            kinds = [rng.weighted(STRESSORS) for _ in range(rng.weighted([(1, 6), (2, 3), (3, 1)]))]
        for k in kinds:
            self.apply(rng, plan, k)
            plan["stressors"].append(k)
        return plan

    # -- stressors ----------------------------------------------------------
    def apply(self, rng, plan, kind):
        files = plan["files"]
        main = "/sim/w/a.asm"
        src = files[main]
        cpu = plan["cpu"]

        def others():
            return [p for p in sorted(files) if p != main and not p.endswith(".dat")]

        def add_line(line, at_end=True):
            files[main] = files[main] + line + "\n" if at_end else line + "\n" + files[main]

        if kind == "directive-mix":
            # 1-5 directives dropped between the statements of a program that also has a .repeat block and a macro
            w = "%x" % rng.below(1 << 16)
            lines = files[main].split("\n")
            lines += [".repeat 2", ".db 1", ".endr", ".macro dm_%s" % w, ".db 2", ".endm", "dm_%s" % w]
            for _ in range(rng.range(1, 5)):
                lines.insert(rng.range(1, len(lines)), rng.pick(DIRECTIVES) % {"w": w})
            files[main] = "\n".join(lines) + "\n"
            if rng.chance(1, 3):
                plan["argv"] = ["-l"] + plan["argv"]
        elif kind == "cut":
            target = rng.pick([main] + others())
            n = len(files[target])
            plan["faults"].append({"kind": "read_eof", "path": target, "nth": rng.pick([0, 1, 2]), "offset": rng.below(n + 1)})
        elif kind == "eio":
            target = rng.pick([main] + others())
            n = len(files[target])
            plan["faults"].append({"kind": "read_eio", "path": target, "nth": rng.pick([0, 1, 2]), "offset": rng.below(n + 1), "errno": "EIO"})
        elif kind == "empty":
            files[rng.pick([main] + others())] = ""
        elif kind == "include-dir":
            files["/sim/w/adir/x.inc"] = ".db 1\n"
            add_line('.include "adir"')
        elif kind == "include-missing":
            if others() and rng.chance(1, 2):
                plan["faults"].append({"kind": "vanish", "path": rng.pick(others()), "nth": rng.pick([1, 2])})
            else:
                add_line('.include "nothere_%d.inc"' % rng.below(100))
        elif kind == "fd-limit":
            depth = rng.range(3, 14)
            for d in range(depth):
                nxt = '.include "chain%d.inc"\n' % (d + 1) if d + 1 < depth else ".db 7\n"
                files["/sim/w/chain%d.inc" % d] = ".db %d\n" % d + nxt
            add_line('.include "chain0.inc"')
            plan["env"]["fd_limit"] = rng.range(4, 16)
        elif kind == "deep-include":
            depth = rng.pick([20, 100, 300])
            for d in range(depth):
                nxt = '.include "deep%d.inc"\n' % (d + 1) if d + 1 < depth else ".db 7\n"
                files["/sim/w/deep%d.inc" % d] = nxt
            add_line('.include "deep0.inc"')
        elif kind == "self-include":
            add_line('.include "a.asm"')
        elif kind == "mutual-include":
            files["/sim/w/m1.inc"] = '.db 1\n.include "m2.inc"\n'
            files["/sim/w/m2.inc"] = '.db 2\n.include "m1.inc"\n'
            add_line('.include "m1.inc"')
        elif kind == "define-self":
            v = rng.below(3)
            if v == 0:
                add_line(".define AAA AAA\n.db AAA")
            elif v == 1:
                add_line(".define AAA BBB\n.define BBB AAA\n.db AAA")
            else:
                add_line(".define AAA AAA+1\n.db AAA")
        elif kind == "macro-recursive":
            v = rng.below(3)
            if v == 0:
                add_line(".macro RR\n.db 1\nRR\n.endm\nRR")
            elif v == 1:
                add_line(".macro R1\n.db 1\nR2\n.endm\n.macro R2\n.db 2\nR1\n.endm\nR1")
            else:
                add_line(".macro RP(a)\n.db a\nRP(a+1)\n.endm\nRP(1)")
        elif kind == "deep-if":
            n = rng.pick([10, 100, 1000, 10000, 30000])
            w = rng.pick([".if 1", ".ifdef X", ".ifndef X", ".if 0", ".if 0\n.else", ".ifdef X\n.else", ".if 1\n.db 2\n.else", ".ifndef X\n.db 3\n.else"])
            add_line("\n".join([w] * n) + "\n.db 1\n" + "\n".join([".endif"] * (n if rng.chance(2, 3) else n - 1)))
        elif kind == "deep-paren":
            n = rng.pick([10, 100, 255, 256, 257, 1000, 10000, 100000])
            add_line(rng.pick([".db ", ".if ", ".if 1 && ", ".org ", ".dw 2 * "]) + "(" * n + "1" + ")" * (n if rng.chance(2, 3) else n - 1) +
                     ("\n.db 1\n.endif" if rng.chance(1, 2) else ""))
        elif kind == "long-token":
            n = pick_len(rng)
            v = rng.below(12)
            name = long_name(rng, n)
            if v == 0:
                add_line(name + ":")
            elif v == 1:
                add_line(".db 0x" + "1" * n)
            elif v == 2:
                add_line('.ascii "' + "s" * n + '"')
            elif v == 3:
                add_line(".db " + "9" * n)
            elif v == 4:
                add_line(".define " + name + " 5\n.db " + name)
            elif v == 5:
                add_line(".define QQ " + "1+" * (n // 2) + "1\n.db QQ")
            elif v == 6:
                add_line(name + " equ 5\n.db " + name)
            elif v == 7:
                add_line('.include "' + name + '"')
            elif v == 8:
                add_line("." + name)
            elif v == 9:
                add_line(".set " + name + "=1")
            elif v == 10:
                add_line(".db 1 ; " + "c" * n)
            else:
                add_line("  " + name + " " + name)
        elif kind == "string-edge":
            v = rng.below(6)
            if v == 0:
                add_line('.ascii "unterminated')
            elif v == 1:
                add_line(".db 'a', 'bc', '")
            elif v == 2:
                add_line('.ascii "esc\\n\\t\\0\\\\\\"q"')
            elif v == 3:
                add_line("/* never closed")
            elif v == 4:
                add_line('.ascii "' + "\\" * rng.pick([1, 2, 511, 512, 513]))
            else:
                add_line(".db '\\'")
        elif kind == "many-params":
            n = rng.pick([9, 10, 11, 31, 32, 33, 200])
            ps = ["p%d" % i for i in range(n)]
            add_line(".macro MP(%s)\n.db %s\n.endm\nMP(%s)" % (",".join(ps), ps[-1], ",".join("%d" % (i & 0xff) for i in range(n))))
        elif kind == "nested-macros":
            n = rng.pick([5, 63, 64, 65, 127, 128, 129, 200])
            lines = [".macro N0\n.db 0\n.endm"]
            for i in range(1, n):
                lines.append(".macro N%d\nN%d\n.endm" % (i, i - 1))
            if rng.chance(1, 2):
                lines = [".define Z0 1"] + [".define Z%d Z%d" % (i, i - 1) for i in range(1, n)] + [".db Z%d" % (n - 1)]
            else:
                lines.append("N%d" % (n - 1))
            add_line("\n".join(lines))
        elif kind == "many-labels":
            n = rng.pick([1000, 6000])
            add_line("\n".join("lab_%d_%s:" % (i, "x" * (i % 40)) for i in range(n)))
        elif kind == "addr":
            base = rng.pick([0, 0xffff, 0x10000, 0x7fffffff, 0x80000000, 0xfffffff0, 0xffffff, 0x1000000])
            body = rng.pick([".db 1,2,3", ".dw 0x1234", ".dc32 1", '.ascii "abc"', ".resb 4\n.db 1"])
            files[main] = ".%s\n.org 0x%x\n%s\n" % (cpu, base // progs.cpu_info(cpu)["bpa"], body)
            if rng.chance(1, 2):
                plan["argv"] = ["-type", rng.pick(["hex", "srec", "elf", "bin", "wdc", "uf2", "amiga", "macho"]), "-o", "out.x", "a.asm"]
            if rng.chance(1, 3):
                plan["argv"] = ["-l"] + plan["argv"]
        elif kind == "addr-top":
            files[main] = ".%s\n.org 0x%x\n.db 1,2\n" % (cpu, rng.pick([0xffffffff, 0xfffffffe]))
        elif kind == "resb-align":
            v = rng.below(8)
            arg = rng.pick(["0", "-1", "1", "0x7fffffff", "0x80000000", "0xffffffff", "65536", "3", "-2147483648"])
            d = [".resb", ".resw", ".align", ".align_bits", ".align_bytes", ".org", ".repeat", ".dc16"][v]
            if d == ".repeat":
                arg = rng.pick(["0", "-1", "1", "4096"])
                add_line(".repeat %s\n.db 1\n.endr" % arg)
            elif d in (".resb", ".resw") and arg in ("0x7fffffff", "0x80000000", "0xffffffff", "-1", "-2147483648"):
                # a huge reservation only moves the location counter; keep data after it out
                files[main] = ".%s\n.org 0x100\n.db 1\n%s %s\n" % (cpu, d, arg)
            elif d == ".org":
                files[main] = ".%s\n.org %s\n.db 1\n" % (cpu, arg if arg not in ("0xffffffff", "-1") else "0xfffffff0")
            else:
                # alignment / data directives with a boundary operand; operands that would
                # legitimately move the location counter by gigabytes stand alone, with no data after
                if arg in ("0x7fffffff", "0x80000000", "0xffffffff", "-1", "-2147483648"):
                    files[main] = ".%s\n.org 0x100\n.db 1\n%s %s\n" % (cpu, d, arg)
                else:
                    add_line("%s %s\n.db 1" % (d, arg))
        elif kind == "lowhigh":
            lo = rng.pick([0, 1, 0x100, 0xffff])
            hi = lo + rng.pick([0, 1, 0xff, 0xffff, 0xfffff])
            v = rng.below(4)
            if v == 0:
                add_line(".low_address 0x%x\n.high_address 0x%x" % (lo, hi))
            elif v == 1:
                add_line(".high_address 0x%x\n.low_address 0x%x" % (lo, hi))
            elif v == 2:
                add_line(".low_address\n.high_address -1 +")
            else:
                add_line(".low_address 0x%x" % hi)
        elif kind == "garbage":
            n = rng.pick([1, 10, 100, 1000, 5000])
            v = rng.below(4)
            if v == 0:
                data = rng.bytes(n).decode("latin-1")
            elif v == 1:
                data = "".join(rng.pick("\x00\x01\x7f\x80\xff\n\r\t \"'();,.#$%&*+-/<=>[\\]^{|}~:") for _ in range(n))
            elif v == 2:
                toks = [".db", ".if", ".endif", ".macro", ".endm", "(", ")", ",", "\"", "'", "1", "0x", "a", ":", "\n", ".include", ".define", "equ", ".repeat", ".endr", "#", "+", "/*", "*/", ";", ".org", ".scope", ".ends", ".else", ".set", "="]
                data = " ".join(rng.pick(toks) for _ in range(n))
            else:
                data = src[: rng.below(len(src) + 1)] + rng.bytes(min(n, 50)).decode("latin-1") + src[rng.below(len(src) + 1):]
            files[main] = ("." + cpu + "\n" if rng.chance(1, 2) else "") + data
        elif kind == "options":
            opts = rng.subset(["-l", "-q", "-dump_symbols", "-dump_macros", "-optimize"], 1, 2)
            typ = rng.pick(["hex", "srec", "elf", "bin", "wdc", "uf2", "amiga", "macho", "bogus", None])
            argv = opts + (["-type", typ] if typ else []) + ["-o", rng.pick(["out.hex", "o", "sub/out.bin", "x" * rng.pick([10, 1020, 1023, 1024, 2000]) + ".hex", ".hidden"])]
            v = rng.below(8)
            if v == 0:
                argv += ["a.asm", "a.asm"]
            elif v == 1:
                argv += ["-I"]
            elif v == 2:
                argv = ["-bogus"] + argv + ["a.asm"]
            elif v == 3:
                argv += ["missing.asm"]
            elif v == 4:
                argv = argv[:-2] + ["a.asm", "-o"]
            else:
                argv += ["a.asm"]
            plan["argv"] = argv
        elif kind == "many-I":
            n = rng.pick([1, 1, 2, 3, 50, 300])
            ln = rng.pick([1, 20, 200, 1000, 1010, 1015, 1020, 1030, 2000, 4000]) if n <= 3 else rng.pick([1, 20, 200, 4000])
            argv = []
            for i in range(n):
                p = "p%d" % i + "d" * ln
                if rng.chance(1, 2):
                    argv += ["-I", p]
                else:
                    argv += ["-I" + p]
            add_line('.include "zz.inc"')
            plan["argv"] = argv + plan["argv"]
        elif kind == "binfile":
            v = rng.below(5)
            if v == 0:
                add_line('.binfile "nothere.bin"')
            elif v == 1:
                files["/sim/w/big.dat"] = "\xaa" * rng.pick([0, 1, 4096, 70000])
                add_line('.binfile "big.dat"')
            elif v == 2:
                files["/sim/w/d2/x"] = ""
                add_line('.binfile "d2"')
            elif v == 3:
                files["/sim/w/b.dat"] = "\x01\x02\x03\x04" * 50
                add_line('.binfile "b.dat"')
                plan["faults"].append({"kind": rng.pick(["read_eof", "read_eio"]), "path": "b.dat", "nth": 0, "offset": rng.below(200), "errno": "EIO"})
            else:
                add_line(".binfile")
        elif kind == "token-mutation":
            lines = files[main].split("\n")
            if len(lines) > 1:
                i = rng.range(1 if lines[0].startswith(".") else 0, len(lines) - 1)
                toks = re.findall(r"\s+|\w+|.", lines[i])
                if toks:
                    j = rng.below(len(toks))
                    v = rng.below(6)
                    if v == 0:
                        del toks[j]
                    elif v == 1:
                        toks.insert(j, toks[j])
                    elif v == 2:
                        toks[j] = toks[j] * rng.pick([2, 50, 600])
                    elif v == 3:
                        toks[j] = rng.pick(["(", ")", ",", "#", "\"", "'", "-", "0x", "[", "]", "+", "@", "$", "%", "{"])
                    elif v == 4:
                        toks[j] = rng.pick(["0xffffffffffffffffff", "-1", "99999999999999999999", "1e99", "0b" + "1" * 70, "'", "0.0.0"])
                    else:
                        toks = toks[:j]
                    lines[i] = "".join(toks)
                    files[main] = "\n".join(lines)
        elif kind == "long-macro-body":
            n = rng.pick([1000, 1023, 1024, 1025, 4096, 70000])
            body = ".db 1\n" * (n // 6) + ";" + "x" * (n % 6)
            add_line(".macro LB\n" + body + "\n.endm\nLB")
        elif kind == "long-macro-arg":
            n = pick_len(rng)
            v = rng.below(3)
            if v == 0:
                add_line(".macro LA(a)\n.db a\n.endm\nLA(" + "1+" * (n // 2) + "1)")
            elif v == 1:
                add_line(".macro LA(a,b)\n.db a\n.endm\nLA(" + "7" * n + ",2)")
            else:
                add_line(".macro LA(" + "p" * n + ")\n.db 1\n.endm\nLA(1)")
        elif kind == "obj-arg":
            # a .o / .a argument: header-only, truncated or random
            v = rng.below(5)
            name = rng.pick(["lib.o", "lib.a"])
            if v == 0:
                data = "\x7fELF" + rng.bytes(rng.range(0, 200)).decode("latin-1")
            elif v == 1:
                data = "!<arch>\n" + rng.bytes(rng.range(0, 300)).decode("latin-1")
            elif v == 2:
                data = ""
            elif v == 3:
                data = "!<arch>\n" + "/               0           0     0     0       %-10d`\n" % rng.pick([0, 4, 100, 0x7fffffff]) + rng.bytes(rng.range(0, 100)).decode("latin-1")
            else:
                data = rng.bytes(rng.range(1, 400)).decode("latin-1")
            files["/sim/w/" + name] = data
            plan["argv"] = plan["argv"] + [name]
        elif kind == "div-zero":
            add_line(rng.pick([".db 5/0", ".dw 5 % 0", ".db 1/(2-2)", ".if 1/0\n.endif", ".org 1/0", ".define DZ 0\n.db 4/DZ",
                               ".db 5 % 0.0", ".db 7 % (1.5 - 1.5)", ".db 5 / 0.0", ".dw 2 + 9 % 0.0", ".db 1.5 % 0", ".db 3 % -0.0", ".db 0.0 / 0.0"]))
        elif kind == "repeat-big":
            add_line(".repeat %d\n.db 1\n.endr" % rng.pick([4096, 65536]))
        elif kind == "scope":
            v = rng.below(4)
            if v == 0:
                add_line(".scope\n" * rng.pick([1, 10, 1000]) + ".db 1")
            elif v == 1:
                add_line(".ends\n.endf\n.endm\n.endr\n.else\n.endif")
            elif v == 2:
                add_line(".func f\nx:\n.func g\n.endf\n.endf")
            else:
                add_line(".func " + "f" * rng.pick([10, 300, 5000]) + "\n.endf")
        elif kind == "unary-chain":
            n = rng.pick([3, 255, 256, 257, 5000, 200000])
            op = rng.pick(["-", "~", "-~", "(-", "+"])
            tail = ")" * n if op == "(-" else ""
            add_line(rng.pick([".dw 1 + ", ".db ", ".org ", ".if "]) + op * n + "1" + tail)
        elif kind == "int-min-div":
            add_line(".dw " + rng.pick(["0x8000000000000000", "-9223372036854775808", "(1 << 63)", "0x7fffffffffffffff + 1"]) +
                     rng.pick([" / -1", " % -1", " / (0 - 1)", " * -1", " / 0x8000000000000000"]))
        elif kind == "macro-arg-escapes":
            n = rng.pick([100, 509, 510, 511, 512, 1021, 1022, 1023, 3000])
            q = rng.pick(['"', "'"])
            add_line(".macro ME(a)\n.db a\n.endm\nME(" + q + "\\" * n + rng.pick([q, "", q + ")"]) + rng.pick([")", ""]))
        elif kind == "truncate-instr":
            from engines import c16t
            ps = c16t.pairs()
            tcpu, text, cut = ps[rng.below(len(ps))]
            files[main] = ".%s\n  %s%s" % (tcpu, text[:cut], rng.pick(c16t.ENDINGS))
            plan["cpu"] = tcpu
        elif kind == "suffix-chain":
            if cpu in progs.corpus():
                text = rng.pick(progs.corpus()[cpu])[0]
                mn = text.split(" ")[0]
                rest = text[len(mn):]
                n = rng.pick([3, 100, 255, 256, 300, 600])
                sfx = rng.pick([".x", ".", "@", "*", "+", ".w", ".aq", "/", "'", "_"])
                add_line("  " + mn + sfx * n + rest)
        elif kind == "empty-define-run":
            n = rng.pick([10, 1000, 50000, 400000])
            add_line(".define EMPTYD\n" + rng.pick([".db ", "  ", ".if ", ".org "]) + "EMPTYD " * n + rng.pick(["1", "", "EMPTYD"]))
        elif kind == "out-write-fail":
            # the disk fills up (or the listing cannot be written) while naken_asm writes: every byte offset class,
            # every output type, images small enough to sit in one stdio buffer and large enough to need several
            n = rng.pick([0, 1, 200, 2000, 9000])
            if n:
                add_line(".repeat %d\n.db 0x11, 0x22, 0x33\n.endr" % n)
            typ = rng.pick(["hex", "srec", "elf", "bin", "wdc", "uf2", "amiga", "macho"])
            plan["argv"] = (["-l"] if rng.chance(1, 3) else []) + ["-type", typ, "-o", "out.x", "a.asm"]
            target = rng.pick(["out.x", "out.x", "out.x", "out.lst"])
            plan["faults"].append({"kind": "write_fail", "path": target, "nth": 0,
                                   "offset": rng.pick([0, 1, 52, 100, 4095, 4096, 4097, 8192, 20000]) if rng.chance(2, 3) else rng.below(30000),
                                   "errno": rng.pick(["ENOSPC", "EIO", "EDQUOT"])})
            if rng.chance(1, 4):
                plan["faults"].append({"kind": "open_fail", "path": rng.pick(["out.x", "out.lst"]), "nth": 0, "errno": rng.pick(["EACCES", "ENOSPC", "EMFILE"])})
        # "none": plain program

    # -- execution + oracle ------------------------------------------------
    def run(self, ex, plan):
        res = RunResult()
        ex = self.variant(ex, plan.get("build"))
        files = {k: v.encode("latin-1") for k, v in plan["files"].items()}
        tag = "+".join(sorted(set(plan["stressors"]))) or "none"
        env = dict(plan["env"])
        env["event_ceiling"] = 3000000
        req = build_request(MODE_ASM, ["naken_asm"] + plan["argv"], files, plan["faults"], env=env, cpu_ms=int(os.environ.get("VERIF_CPU_MS", "8000")), wall_ms=120000)
        o = ex.call(req)     # (a budget overrun in the small build is re-judged on the shipped sizes: framework.Rejudging)
        res.absorb(o)
        res.digest = o.digest()
        ck = crash_key(o, tag)
        if ck is not None and o.kind() == "sanitizer" and re.search(rb"/core/(imports_\w+|Linker)\.cpp", o.stderr):
            # one finding: the .o/.a import code trusts every offset, size and count in the file
            ck = "crash:linker-import-parser-trusts-offsets-in-o-a-files"
        if ck is not None and ck.startswith("hang:") and ("Pass 2..." in o.text() or "bailing out" in o.text()
                                                         or "addr-top" in plan["stressors"]):
            # assembly itself finished: the run is stuck in the byte-wise low..high walk of the
            # listing / output writers (never ends when high_address is 0xffffffff, minutes for GiB spans)
            ck = "hang:after-pass-2:byte-wise-walk-of-the-address-span"
        if ck is not None and ck.startswith("hang:") and self.legit_long(plan):
            # a repeat count / reservation / alignment in the millions is work the source asked for, not a hang
            res.probe("long_repeat_not_judged")
            ck = None
        if ck is not None:
            res.viol(ck, how=o.kind(), stderr=o.stderr.decode("latin-1")[:1500], tail=o.text()[-300:],
                     ring=[(SEAMS[s] if s < len(SEAMS) else s, a) for s, a in o.ring][-6:])
            return res
        st = o.status
        if st not in (0, 1):
            res.viol("status:%d:%s" % (st & 0xff, tag), tail=o.text()[-300:])
        elif st == 1:
            body = [l for l in o.text().split("\n")
                    if l.strip() and not l.startswith("** Errors") and not l.startswith("*** Failed")]
            if not any(DIAG.search(l) for l in o.text().split("\n")[8:]):
                res.viol("no-diagnostic:%s" % tag, tail=o.text()[-400:])
            res.probe("rejected_with_diagnostic")
        else:
            res.probe("accepted")
        for s in plan["stressors"]:
            res.probe("stressor:" + s)
        return res

    @staticmethod
    def legit_long(plan):
        for text in plan["files"].values():
            for m in re.finditer(r"\.(?:repeat|resb|resw|align\w*)\s+(-?\s*(?:0x[0-9a-fA-F]+|\d+))", text):
                try:
                    if abs(int(m.group(1).replace(" ", ""), 0)) > 200000:
                        return True
                except ValueError:
                    pass
        return False

    def shrink(self, plan):
        import copy
        # drop stressors is not possible (already applied); shrink files/lines/faults
        for i in range(len(plan["faults"])):
            c = copy.deepcopy(plan)
            del c["faults"][i]
            yield c
        if plan["env"].get("chunk_seed") or plan["env"].get("heap_fill") or plan["env"].get("stack_fill"):
            c = copy.deepcopy(plan)
            c["env"].update({"chunk_seed": 0, "heap_fill": 0, "stack_fill": 0})
            yield c
        for path in sorted(plan["files"]):
            if path != "/sim/w/a.asm":
                c = copy.deepcopy(plan)
                del c["files"][path]
                yield c
        main = plan["files"].get("/sim/w/a.asm", "")
        lines = main.split("\n")
        n = len(lines)
        chunk = max(n // 2, 1)
        while chunk >= 1:
            for i in range(0, n, chunk):
                c = copy.deepcopy(plan)
                c["files"]["/sim/w/a.asm"] = "\n".join(lines[:i] + lines[i + chunk:])
                if c["files"]["/sim/w/a.asm"] != main:
                    yield c
            if chunk == 1:
                break
            chunk //= 2
        # shorten very long lines
        for i, l in enumerate(lines):
            if len(l) > 40:
                for keep in (len(l) // 2, len(l) - 1):
                    c = copy.deepcopy(plan)
                    ls = list(lines)
                    ls[i] = l[:keep]
                    c["files"]["/sim/w/a.asm"] = "\n".join(ls)
                    yield c
        if len(plan["argv"]) > 1:
            for i in range(len(plan["argv"])):
                c = copy.deepcopy(plan)
                del c["argv"][i]
                yield c


if __name__ == "__main__":
    from vlib.framework import main
    main(C16)
