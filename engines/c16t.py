"""C16T - directed sweep used for triage and by the thorough tier of C16: every
corpus instruction of every CPU, cut at every token boundary, with several
endings (EOF, newline, dangling quote / parenthesis).  Same oracle as C16."""
import re

from vlib.core import *
from vlib import progs
from engines.c16 import C16

ENDINGS = ["", "\n", " (", " \"", " ,", " [", " #", " +\n", "\n.db 1\n"]
_pairs = None


def pairs():
    global _pairs
    if _pairs is None:
        _pairs = []
        for cpu in progs.corpus_cpus():
            for ins in progs.corpus()[cpu]:
                text = ins[0]
                cuts = [m.end() for m in re.finditer(r"\w+|[^\w\s]", text)]
                for c in cuts:
                    _pairs.append((cpu, text, c))
    return _pairs


class C16T(C16):
    prop = "C16"

    def directed(self):
        return len(pairs()) * 2

    def plan(self, rng, index):
        ps = pairs()
        cpu, text, cut = ps[index % len(ps)]
        ending = ENDINGS[(index // len(ps)) % len(ENDINGS)] if index < len(ps) * len(ENDINGS) else rng.pick(ENDINGS)
        src = ".%s\n  %s%s" % (cpu, text[:cut], ending)
        return {"env": {"clock0": 1291231234, "heap_fill": 0, "heap_seed": 1, "stack_fill": 0, "stack_seed": 1, "chunk_seed": 0, "fd_limit": 0},
                "cpu": cpu, "files": {"/sim/w/a.asm": src}, "argv": ["-o", "out.hex", "a.asm"], "faults": [], "stressors": ["truncate-instr"]}
