// Mode 5: single steps of any of the 15 simulators from user-reachable states,
// repeated under different environments and histories (C15).  Results are
// printed as marker lines on the captured stdout so that everything up to a
// crashing case survives in the shared transcript.
#include <stdio.h>
#include <string.h>
#include <strings.h>

#include "sim.h"
#include "core/Memory.h"
#include "core/MemoryPage.h"
#include "core/cpu_list.h"
#include "simulate/Simulate.h"
#include "disasm/6502.h"
#include "disasm/65816.h"
#include "disasm/z80.h"

static uint64_t fnv(const void *p, size_t n, uint64_t h)
{
  const uint8_t *q = (const uint8_t *)p;
  for (size_t i = 0; i < n; i++) { h ^= q[i]; h *= 0x100000001b3ULL; }
  return h;
}

static void mem_report(Memory *memory, const char *tag)
{
  uint64_t sum = 0;
  uint32_t npages = 0;
  uint32_t top = 0;
  for (MemoryPage *p = memory->pages; p != NULL; p = p->next)
  {
    // an all-zero page counts like an absent one (reads return 0 either way)
    bool zero = true;
    for (int i = 0; i < PAGE_SIZE; i++) { if (p->bin[i] != 0) { zero = false; break; } }
    npages++;
    if (p->address > top) { top = p->address; }
    if (zero) { continue; }
    uint64_t h = fnv(&p->address, 4, 0xcbf29ce484222325ULL);
    h = fnv(p->bin, PAGE_SIZE, h);
    sum += h;
  }
  printf("@@%s memhash=%016llx pages=%u top=%08x\n", tag, (unsigned long long)sum, npages, top);
}

struct Win { uint32_t addr; std::string data; };

int engine_c15(RBuf &rq)
{
  uint32_t ncases = rq.u32();
  for (uint32_t c = 0; c < ncases && !rq.bad; c++)
  {
    std::string cpu = rq.str();
    uint32_t case_id = rq.u32();
    uint32_t nwin = rq.u32();
    std::vector<Win> wins;
    for (uint32_t i = 0; i < nwin; i++) { Win w; w.addr = rq.u32(); w.data = rq.str(); wins.push_back(w); }
    uint32_t pc = rq.u32();
    uint32_t nregs = rq.u32();
    std::vector<std::pair<std::string, uint32_t> > regs;
    for (uint32_t i = 0; i < nregs; i++) { std::string n = rq.str(); uint32_t v = rq.u32(); regs.push_back(std::make_pair(n, v)); }
    uint32_t npush = rq.u32();
    std::vector<uint32_t> pushes;
    for (uint32_t i = 0; i < npush; i++) { pushes.push_back(rq.u32()); }
    uint32_t prefix = rq.u32();
    uint32_t nvar = rq.u8();

    int index = -1;
    for (int n = 0; cpu_list[n].name != NULL; n++)
    {
      if (strcasecmp(cpu_list[n].name, cpu.c_str()) == 0) { index = n; break; }
    }

    W.hdr->counters[C_ENGINE0] = case_id;
    printf("@@CASE %u cpu=%s\n", case_id, cpu.c_str());
    fflush(stdout);

    for (uint32_t v = 0; v < nvar && !rq.bad; v++)
    {
      int kind = rq.u8();
      W.heap_fill_mode = rq.u8();
      W.heap_state = rq.u64() | 1;
      uint32_t usec = rq.u32();
      uint32_t sig_k = rq.u32();
      uint32_t hist_steps = rq.u32();
      uint32_t hist_sigint = rq.u32();
      std::string hist = rq.str();
      if (index < 0 || cpu_list[index].simulate_init == NULL) { printf("@@NOSIM\n"); continue; }

      printf("@@VAR %u kind=%d fill=%d\n", v, kind, W.heap_fill_mode);
      Memory *memory = new Memory();
      memory->endian = cpu_list[index].default_endian;
      if (kind == 1 || kind == 3)
      {
        for (size_t i = 0; i < hist.size(); i++) { memory->write8((uint32_t)i, (uint8_t)hist[i]); }
      }
      else
      {
        for (size_t w = 0; w < wins.size(); w++)
          for (size_t i = 0; i < wins[w].data.size(); i++)
            memory->write8(wins[w].addr + (uint32_t)i, (uint8_t)wins[w].data[i]);
      }
      Simulate *sim = cpu_list[index].simulate_init(memory);
      sim->reset();
      sim->set_show(false);
      if (kind == 1 || kind == 3)
      {
        // unrelated history on the same object, then back to the seeded state (kind 3: without reset(),
        // only through the commands a user has: set <reg>=, set pc=, write - hidden state that is not
        // part of what the user can see or set must not make the next step behave differently)
        sim->set_pc(0);
        sim->enable_step_mode();
        for (uint32_t i = 0; i < hist_steps; i++) { sim->run(-1, 1); }
        if (hist_sigint != 0)
        {
          // ... and ends with a free run that is interrupted by Ctrl-C at its k-th usleep
          sim->disable_step_mode();
          sim->set_delay(1);
          SigPlan s;
          s.trigger = 0;
          s.k = W.hdr->usleeps + hist_sigint;
          s.after = 0;
          s.repeat = 0;
          s.done = false;
          W.sigs.clear();
          W.sigs.push_back(s);
          sim->enable_signal_handler();
          sim->run(-1, 0);
          printf("@@HISTRUN delivered=%d\n", W.sigs[0].done ? 1 : 0);
          W.sigs.clear();
          sim->set_delay(1000000);
        }
        memory->clear();
        for (size_t w = 0; w < wins.size(); w++)
          for (size_t i = 0; i < wins[w].data.size(); i++)
            memory->write8(wins[w].addr + (uint32_t)i, (uint8_t)wins[w].data[i]);
        if (kind == 1) { sim->reset(); }
      }
      for (size_t i = 0; i < regs.size(); i++) { sim->set_reg(regs[i].first.c_str(), regs[i].second); }
      for (size_t i = 0; i < pushes.size(); i++) { sim->push(pushes[i]); }
      if (pc != 0xffffffff) { sim->set_pc(pc); }
      sim->enable_step_mode();
      for (uint32_t i = 0; i < prefix; i++) { sim->run(-1, 1); }

      printf("@@PRE\n");
      sim->dump_registers();
      mem_report(memory, "PREMEM");
      fflush(stdout);

      // the three simulators that take the instruction length from the disassembler: what the listing
      // says about the instruction at PC (length, text) goes into the transcript for the length clause
      if (kind == 0 && (cpu == "6502" || cpu == "65816" || cpu == "z80"))
      {
        char text[128];
        int cmin = 0, cmax = 0;
        uint32_t pcv = sim->get_reg("pc");
        text[0] = 0;
        int count = cpu == "6502" ? disasm_6502(memory, pcv, text, sizeof(text), 0, &cmin, &cmax) :
                    cpu == "65816" ? disasm_65816(memory, pcv, text, sizeof(text), 0, &cmin, &cmax) :
                                     disasm_z80(memory, pcv, text, sizeof(text), 0, &cmin, &cmax);
        printf("@@DISASM pc=%x count=%d text=%s\n", pcv, count, text);
      }

      int ret;
      uint64_t u0 = W.hdr->usleeps;
      if (kind == 2)
      {
        sim->disable_step_mode();
        sim->set_delay(usec == 0 ? 1 : usec);
        // Simulate's constructor installed the SIGINT handler; plan the signal
        SigPlan s;
        s.trigger = 0;
        s.k = u0 + 1 + sig_k;
        s.after = 0;
        s.repeat = 0;
        s.done = false;
        W.sigs.clear();
        W.sigs.push_back(s);
        sim->enable_signal_handler();
        ret = sim->run(-1, 0);
        printf("@@RUN usleeps=%llu sig_at=%u delivered=%d\n", (unsigned long long)(W.hdr->usleeps - u0), sig_k + 1,
               W.sigs.empty() ? 0 : (W.sigs[0].done ? 1 : 0));
        W.sigs.clear();
      }
      else
      {
        ret = sim->run(-1, 1);
      }
      printf("@@RET %d\n", ret);
      sim->dump_registers();
      mem_report(memory, "POSTMEM");
      // a second step lets hidden state surface
      sim->enable_step_mode();
      int ret2 = sim->run(-1, 1);
      printf("@@RET2 %d\n", ret2);
      sim->dump_registers();
      mem_report(memory, "POST2MEM");
      printf("@@ENDVAR %u\n", v);
      fflush(stdout);
      delete sim;
      delete memory;
    }
    printf("@@ENDCASE %u\n", case_id);
    fflush(stdout);
  }
  return 0;
}
