// Minimal length-prefixed binary wire format shared by the executor and the
// Python controller (vlib/wire.py).  All integers little endian.
#ifndef VERIF_WIRE_H
#define VERIF_WIRE_H

#include <stdint.h>
#include <string.h>
#include <string>
#include <vector>

struct WBuf
{
  std::vector<uint8_t> b;
  void u8(uint8_t v) { b.push_back(v); }
  void u32(uint32_t v) { for (int i = 0; i < 4; i++) b.push_back((v >> (8 * i)) & 0xff); }
  void u64(uint64_t v) { for (int i = 0; i < 8; i++) b.push_back((v >> (8 * i)) & 0xff); }
  void bytes(const void *p, size_t n)
  {
    u32((uint32_t)n);
    const uint8_t *q = (const uint8_t *)p;
    b.insert(b.end(), q, q + n);
  }
  void str(const std::string &s) { bytes(s.data(), s.size()); }
};

struct RBuf
{
  const uint8_t *p;
  size_t n, pos;
  bool bad;
  RBuf(const uint8_t *p, size_t n) : p(p), n(n), pos(0), bad(false) { }
  bool need(size_t k) { if (pos + k > n) { bad = true; return false; } return true; }
  uint8_t u8() { if (!need(1)) return 0; return p[pos++]; }
  uint32_t u32()
  {
    if (!need(4)) return 0;
    uint32_t v = 0;
    for (int i = 0; i < 4; i++) v |= (uint32_t)p[pos + i] << (8 * i);
    pos += 4;
    return v;
  }
  uint64_t u64()
  {
    if (!need(8)) return 0;
    uint64_t v = 0;
    for (int i = 0; i < 8; i++) v |= (uint64_t)p[pos + i] << (8 * i);
    pos += 8;
    return v;
  }
  std::string str()
  {
    uint32_t k = u32();
    if (!need(k)) return std::string();
    std::string s((const char *)p + pos, k);
    pos += k;
    return s;
  }
};

#endif
