// Deterministic-simulation executor for naken_asm / naken_util.
//
// A long-lived parent reads requests (plans compiled to a binary form by the
// Python controller) from fd 0 and answers on fd 1.  Every request is one
// simulated process lifetime: it runs in a forked child on top of an
// in-memory file system (SimFs), a simulated clock, a scripted console, a
// planned SIGINT source and a captured exit().  The child draws no randomness
// of its own: everything is decided by the request.

#include <dirent.h>
#include <errno.h>
#include <fcntl.h>
#include <poll.h>
#include <signal.h>
#include <stdarg.h>
#include <stdio.h>
#include <stdlib.h>
#include <string.h>
#include <sys/mman.h>
#include <sys/resource.h>
#include <sys/types.h>
#include <sys/wait.h>
#include <time.h>
#include <unistd.h>
#include <malloc.h>
#include <new>

#include "sim.h"

#include <setjmp.h>
World W;
WBuf g_extra;
extern jmp_buf g_exit_jmp;
extern int g_exit_jmp_active;
extern uint32_t naken_asm_verif_stale_count;
extern uint32_t naken_asm_verif_stale_first;
extern uint32_t naken_asm_verif_rewritten_count;
extern int g_exit_status;

static int g_in_callback = 0;

#define STDOUT_CAP (48u << 20)
#define RESULT_CAP (96u << 20)

// ---------------------------------------------------------------- event log

static inline uint64_t mix64(uint64_t x)
{
  x ^= x >> 30; x *= 0xbf58476d1ce4e5b9ULL;
  x ^= x >> 27; x *= 0x94d049bb133111ebULL;
  x ^= x >> 31;
  return x;
}

static uint64_t hash_bytes(const void *p, size_t n)
{
  const uint8_t *q = (const uint8_t *)p;
  uint64_t h = 0xcbf29ce484222325ULL;
  for (size_t i = 0; i < n; i++) { h ^= q[i]; h *= 0x100000001b3ULL; }
  return h;
}

void sim_count(int counter)
{
  if (W.hdr != NULL && counter >= 0 && counter < NCOUNTERS) { W.hdr->counters[counter]++; }
}

void sim_event(int seam, uint64_t a, uint64_t b)
{
  if (!W.in_child) { return; }
  SharedHeader *h = W.hdr;
  uint64_t n = h->event_count++;
  h->event_hash = mix64(h->event_hash ^ mix64(((uint64_t)seam << 56) ^ a) ^ (b * 0x9e3779b97f4a7c15ULL));
  h->ring_seam[n % RING] = seam;
  h->ring_a[n % RING] = a;
  if (W.event_ceiling != 0 && n > W.event_ceiling)
  {
    sim_finish(HOW_EVENTS, 0);
  }
}

static void deliver_sigint()
{
  sim_event(SEAM_SIGINT, (uint64_t)(W.sigint_disposition == SIG_DFL ? 0 :
                                    W.sigint_disposition == SIG_IGN ? 1 : 2), 0);
  if (W.sigint_disposition == SIG_DFL)
  {
    sim_count(C_SIGINT_DFL);
    sim_finish(HOW_SIGINT_DFL, 0);
  }
  if (W.sigint_disposition == SIG_IGN) { return; }
  sim_count(C_SIGINT_HANDLED);
  W.sigint_disposition(SIGINT);
}

void sim_yield(int seam)
{
  if (!W.in_child) { return; }
  SharedHeader *h = W.hdr;
  for (size_t i = 0; i < W.sigs.size(); i++)
  {
    SigPlan &s = W.sigs[i];
    if (s.done) { continue; }
    bool hit = false;
    if (s.trigger == 0 && seam == SEAM_USLEEP && h->usleeps == s.k) { hit = true; }
    if (s.trigger == 1 && h->event_count >= s.k) { hit = true; }
    if (s.trigger == 2 && seam == SEAM_STDOUT && h->console_pos >= s.after)
    {
      if (s.k == 0) { hit = true; } else { s.k--; }
    }
    // trigger 3: k-th usleep/stdout yield while console command number `after`
    // (1-based count of lines handed out) is executing; dropped when the
    // command finishes first -- the user presses Ctrl-C only at a running program.
    if (s.trigger == 3)
    {
      if (h->console_pos > s.after) { s.done = true; continue; }
      if (h->console_pos == s.after && (seam == SEAM_USLEEP || seam == SEAM_STDOUT))
      {
        if (s.k == 0) { hit = true; } else { s.k--; }
      }
    }
    if (hit)
    {
      // a user whose Ctrl-C did not stop the program presses it again: re-arm
      // every `repeat` yields for as long as the same command is executing
      if (s.repeat != 0 && s.trigger == 3) { s.k = s.repeat; } else { s.done = true; }
      if (seam == SEAM_USLEEP) { sim_count(C_SIGINT_IN_RUN); }
      deliver_sigint();
    }
  }
}

// ---------------------------------------------------------------- heap fill

static inline uint8_t fill_next()
{
  W.heap_state ^= W.heap_state << 13;
  W.heap_state ^= W.heap_state >> 7;
  W.heap_state ^= W.heap_state << 17;
  return (uint8_t)(W.heap_state >> 24);
}

static void fill_region(void *p, size_t n)
{
  if (p == NULL || n == 0 || !W.fill_enabled) { return; }
  switch (W.heap_fill_mode)
  {
    case 0: memset(p, 0x00, n); break;
    case 1: memset(p, 0xff, n); break;
    case 2: memset(p, 0xa5, n); break;
    default:
    {
      uint8_t *q = (uint8_t *)p;
      // one PRNG byte per 64 bytes keeps 320 KiB pages cheap
      for (size_t i = 0; i < n; i += 64)
      {
        uint8_t v = fill_next();
        size_t k = n - i < 64 ? n - i : 64;
        memset(q + i, v | 1, k);
      }
    }
  }
}

extern "C" {
void *__real_malloc(size_t n);
void *__real_calloc(size_t a, size_t b);
void *__real_realloc(void *p, size_t n);

void *__wrap_malloc(size_t n)
{
  void *p = __real_malloc(n);
  fill_region(p, n);
  return p;
}

void *__wrap_calloc(size_t a, size_t b)
{
  return __real_calloc(a, b);
}

void *__wrap_realloc(void *p, size_t n)
{
  size_t old = p == NULL ? 0 : malloc_usable_size(p);
  void *q = __real_realloc(p, n);
  if (q != NULL && n > old) { fill_region((uint8_t *)q + old, n - old); }
  return q;
}
}

void *operator new(size_t n)
{
  void *p = __real_malloc(n == 0 ? 1 : n);
  if (p == NULL) { throw std::bad_alloc(); }
  fill_region(p, n);
  return p;
}
void *operator new[](size_t n) { return operator new(n); }
void operator delete(void *p) noexcept { free(p); }
void operator delete[](void *p) noexcept { free(p); }
void operator delete(void *p, size_t) noexcept { free(p); }
void operator delete[](void *p, size_t) noexcept { free(p); }

// ---------------------------------------------------------------- SimFs

std::string sim_normalise(const char *path)
{
  std::string full;
  if (path[0] == '/') { full = path; } else { full = W.cwd + "/" + path; }
  std::vector<std::string> parts;
  size_t i = 0;
  while (i < full.size())
  {
    size_t j = full.find('/', i);
    if (j == std::string::npos) { j = full.size(); }
    std::string c = full.substr(i, j - i);
    if (c == "..") { if (!parts.empty()) { parts.pop_back(); } }
    else if (c != "" && c != ".") { parts.push_back(c); }
    i = j + 1;
  }
  std::string out;
  for (size_t k = 0; k < parts.size(); k++) { out += "/" + parts[k]; }
  if (out.empty()) { out = "/"; }
  return out;
}

static bool dir_exists(const std::string &d)
{
  if (d == "/" || d == W.cwd) { return true; }
  std::map<std::string, std::shared_ptr<SimFile> >::iterator it = W.fs.find(d);
  if (it != W.fs.end()) { return it->second->is_dir; }
  std::string prefix = d + "/";
  it = W.fs.lower_bound(prefix);
  return it != W.fs.end() && it->first.compare(0, prefix.size(), prefix) == 0;
}

static bool path_is_dir(const std::string &p)
{
  std::map<std::string, std::shared_ptr<SimFile> >::iterator it = W.fs.find(p);
  if (it != W.fs.end()) { return it->second->is_dir; }
  return dir_exists(p);
}

static std::string parent_of(const std::string &p)
{
  size_t k = p.rfind('/');
  if (k == std::string::npos || k == 0) { return "/"; }
  return p.substr(0, k);
}

static bool suffix_match(const std::string &path, const std::string &pat)
{
  if (pat.empty()) { return true; }
  if (pat.size() > path.size()) { return false; }
  if (path.compare(path.size() - pat.size(), pat.size(), pat) != 0) { return false; }
  if (pat.size() == path.size() || pat[0] == '/') { return true; }
  return path[path.size() - pat.size() - 1] == '/';
}

struct Stream
{
  std::shared_ptr<SimFile> f;
  uint64_t path_hash;
  uint64_t pos;
  bool writable;
  bool is_dir;
  Fault *rd_eof;
  Fault *rd_eio;
  Fault *wr;
  Fault *noseek;
  uint64_t written;
  bool wr_failed;
};

static ssize_t ck_read(void *c, char *buf, size_t size)
{
  Stream *s = (Stream *)c;
  g_in_callback++;
  if (s->is_dir)
  {
    sim_event(SEAM_READ, s->path_hash, (uint64_t)-EISDIR);
    g_in_callback--;
    errno = EISDIR;
    return -1;
  }
  uint64_t limit = s->f->data.size();
  if (s->rd_eof != NULL && s->rd_eof->offset < limit)
  {
    limit = s->rd_eof->offset;
    if (s->pos >= limit && s->rd_eof->fired == 0) { s->rd_eof->fired++; sim_count(C_F_READ_EOF); }
  }
  if (s->rd_eio != NULL && s->pos >= s->rd_eio->offset)
  {
    s->rd_eio->fired++;
    sim_count(C_F_READ_EIO);
    sim_event(SEAM_READ, s->path_hash, (uint64_t)-(int64_t)s->rd_eio->err);
    sim_yield(SEAM_READ);
    g_in_callback--;
    errno = s->rd_eio->err;
    return -1;
  }
  uint64_t n = s->pos < limit ? limit - s->pos : 0;
  if (n > size) { n = size; }
  if (s->rd_eio != NULL && s->pos + n > s->rd_eio->offset) { n = s->rd_eio->offset - s->pos; }
  if (W.chunk_state != 0 && n > 1)
  {
    W.chunk_state ^= W.chunk_state << 13;
    W.chunk_state ^= W.chunk_state >> 7;
    W.chunk_state ^= W.chunk_state << 17;
    static const uint32_t sizes[8] = { 1, 1, 2, 7, 16, 61, 512, 4096 };
    uint64_t c = 1 + (W.chunk_state >> 20) % sizes[(W.chunk_state >> 8) & 7];
    if (n > c) { n = c; sim_count(C_READ_CHUNKED); }
  }
  if (n > 0) { memcpy(buf, s->f->data.data() + s->pos, n); }
  s->pos += n;
  sim_event(SEAM_READ, s->path_hash, n);
  sim_yield(SEAM_READ);
  g_in_callback--;
  return (ssize_t)n;
}

static ssize_t ck_write(void *c, const char *buf, size_t size)
{
  Stream *s = (Stream *)c;
  g_in_callback++;
  size_t n = size;
  int err = 0;
  if (!s->writable || s->is_dir) { n = 0; err = EBADF; }
  if (s->wr != NULL)
  {
    if (s->wr_failed) { sim_count(C_WRITE_AFTER_FAIL); }
    uint64_t allowed = s->written < s->wr->offset ? s->wr->offset - s->written : 0;
    if (n > allowed)
    {
      n = allowed;
      err = s->wr->err;
      if (!s->wr_failed) { s->wr->fired++; sim_count(C_F_WRITE_FAIL); }
      s->wr_failed = true;
    }
  }
  if (n > 0)
  {
    std::vector<uint8_t> &d = s->f->data;
    if (s->pos + n > d.size()) { d.resize(s->pos + n, 0); }
    memcpy(d.data() + s->pos, buf, n);
    s->pos += n;
    s->written += n;
    s->f->dirty = true;
  }
  sim_event(SEAM_WRITE, s->path_hash, n == size ? n : (uint64_t)-(int64_t)err);
  sim_yield(SEAM_WRITE);
  g_in_callback--;
  if (n < size) { errno = err; }
  return (ssize_t)n;
}

static int ck_seek(void *c, off64_t *off, int whence)
{
  Stream *s = (Stream *)c;
  if (s->noseek != NULL)
  {
    s->noseek->fired++;
    sim_event(SEAM_SEEK, s->path_hash, (uint64_t)-ESPIPE);
    errno = ESPIPE;
    return -1;
  }
  int64_t base = 0;
  if (whence == SEEK_CUR) { base = (int64_t)s->pos; }
  else if (whence == SEEK_END) { base = (int64_t)s->f->data.size(); }
  int64_t np = base + *off;
  if (np < 0 || s->is_dir) { errno = EINVAL; return -1; }
  s->pos = (uint64_t)np;
  *off = np;
  sim_count(C_SEEK);
  sim_event(SEAM_SEEK, s->path_hash, s->pos);
  return 0;
}

static int ck_close(void *c)
{
  Stream *s = (Stream *)c;
  sim_event(SEAM_CLOSE, s->path_hash, s->written);
  W.open_streams--;
  delete s;
  return 0;
}

static Fault *find_fault(int kind, const std::string &norm, uint32_t nth)
{
  for (size_t i = 0; i < W.faults.size(); i++)
  {
    Fault &f = W.faults[i];
    if (f.kind != kind) { continue; }
    if (f.nth != 0 && f.nth != nth) { continue; }
    if (!suffix_match(norm, f.path)) { continue; }
    return &f;
  }
  return NULL;
}

static FILE *sim_fopen(const char *path, const char *mode)
{
  if (path == NULL || mode == NULL) { errno = EFAULT; return NULL; }
  std::string norm = sim_normalise(path);
  uint64_t ph = hash_bytes(norm.data(), norm.size());
  uint32_t nth = ++W.open_counts[norm];
  bool want_write = mode[0] == 'w' || mode[0] == 'a' || strchr(mode, '+') != NULL;
  sim_count(C_FOPEN);

  Fault *f;
  if ((f = find_fault(F_VANISH, norm, nth)) != NULL)
  {
    if (W.fs.erase(norm) != 0) { f->fired++; sim_count(C_F_VANISH); W.deleted.push_back(norm); }
  }
  if ((f = find_fault(F_OPEN_FAIL, norm, nth)) != NULL)
  {
    f->fired++;
    sim_count(C_F_OPEN_FAIL);
    sim_event(SEAM_FOPEN, ph, (uint64_t)-(int64_t)f->err);
    errno = f->err;
    return NULL;
  }
  if (W.fd_limit != 0 && (uint32_t)(W.open_streams + 3) >= W.fd_limit)
  {
    sim_count(C_F_EMFILE);
    sim_event(SEAM_FOPEN, ph, (uint64_t)-EMFILE);
    errno = EMFILE;
    return NULL;
  }

  int err = 0;
  std::shared_ptr<SimFile> file;
  bool is_dir = false;
  std::map<std::string, std::shared_ptr<SimFile> >::iterator it = W.fs.find(norm);
  if (mode[0] == 'r')
  {
    if (it != W.fs.end())
    {
      file = it->second;
      is_dir = file->is_dir;
    }
    else if (path_is_dir(norm)) { is_dir = true; file.reset(new SimFile()); }
    else { err = ENOENT; }
    if (is_dir && want_write) { err = EISDIR; }
    if (is_dir && err == 0) { sim_count(C_OPEN_DIR); }
  }
  else
  {
    if (path_is_dir(norm)) { err = EISDIR; }
    else if (!dir_exists(parent_of(norm))) { err = ENOENT; }
    else if (it != W.fs.end())
    {
      file = it->second;
      if (mode[0] == 'w')
      {
        if (!file->data.empty()) { sim_count(C_STALE_TRUNCATED); }
        file->data.clear();
        file->dirty = true;
      }
    }
    else
    {
      file.reset(new SimFile());
      file->dirty = true;
      W.fs[norm] = file;
    }
  }
  if (err != 0)
  {
    sim_count(C_FOPEN_FAIL_NATURAL);
    sim_event(SEAM_FOPEN, ph, (uint64_t)-(int64_t)err);
    errno = err;
    return NULL;
  }

  Stream *s = new Stream();
  s->f = file;
  s->path_hash = ph;
  s->pos = mode[0] == 'a' ? file->data.size() : 0;
  s->writable = want_write;
  s->is_dir = is_dir;
  s->rd_eof = find_fault(F_READ_EOF, norm, nth);
  s->rd_eio = find_fault(F_READ_EIO, norm, nth);
  s->noseek = find_fault(F_NOSEEK, norm, nth);
  s->wr = want_write ? find_fault(F_WRITE_FAIL, norm, nth) : NULL;
  s->written = 0;
  s->wr_failed = false;

  cookie_io_functions_t io;
  io.read = ck_read;
  io.write = ck_write;
  io.seek = ck_seek;
  io.close = ck_close;
  FILE *fp = fopencookie(s, mode, io);
  if (fp == NULL) { delete s; return NULL; }
  W.open_streams++;
  sim_event(SEAM_FOPEN, ph, nth);
  return fp;
}

// ---------------------------------------------------------------- stdout capture

static ssize_t out_write(void *c, const char *buf, size_t size)
{
  SharedHeader *h = W.hdr;
  g_in_callback++;
  uint64_t len = h->stdout_len;
  size_t n = size;
  if (len + n > W.stdout_cap) { n = W.stdout_cap - len; h->stdout_truncated = 1; }
  memcpy(W.stdout_buf + len, buf, n);
  h->stdout_len = len + n;
  uint64_t lines = 0;
  for (size_t i = 0; i < size; i++) { if (buf[i] == '\n') { lines++; } }
  h->stdout_lines += lines;
  if (W.stdout_ceiling != 0 && h->stdout_lines > W.stdout_ceiling && W.event_ceiling != 0)
  {
    // deterministic budget for listings: the controller decides whether it was progress or a loop
    sim_event(SEAM_STDOUT, size, lines);
    g_in_callback--;
    sim_finish(HOW_EVENTS, 0);
  }
  // content is not part of the event hash (timestamps never reach stdout, but
  // pointer values might in debug paths); length is.
  sim_event(SEAM_STDOUT, size, lines);
  sim_yield(SEAM_STDOUT);
  g_in_callback--;
  return (ssize_t)size;
}

// ---------------------------------------------------------------- wrapped libc

extern "C" {

FILE *__wrap_fopen(const char *path, const char *mode)
{
  if (!W.in_child) { errno = ENOENT; return NULL; }
  return sim_fopen(path, mode);
}

FILE *__wrap_fopen64(const char *path, const char *mode)
{
  return __wrap_fopen(path, mode);
}

int __wrap_unlink(const char *path)
{
  std::string norm = sim_normalise(path);
  uint64_t ph = hash_bytes(norm.data(), norm.size());
  Fault *f = find_fault(F_UNLINK_FAIL, norm, 0);
  if (f != NULL)
  {
    f->fired++;
    sim_count(C_F_UNLINK_FAIL);
    sim_event(SEAM_UNLINK, ph, (uint64_t)-(int64_t)f->err);
    errno = f->err;
    return -1;
  }
  std::map<std::string, std::shared_ptr<SimFile> >::iterator it = W.fs.find(norm);
  if (it == W.fs.end() || it->second->is_dir)
  {
    sim_count(C_UNLINK_MISS);
    sim_event(SEAM_UNLINK, ph, (uint64_t)-ENOENT);
    errno = it == W.fs.end() ? ENOENT : EISDIR;
    return -1;
  }
  W.fs.erase(it);
  W.deleted.push_back(norm);
  sim_count(C_UNLINK_HIT);
  sim_event(SEAM_UNLINK, ph, 0);
  return 0;
}

// atexit() of the code under test: the handlers run when the simulated process exits (exit() or return from main), last
// registered first, as the C library would run them.
static std::vector<void (*)(void)> g_atexit;

int __wrap_atexit(void (*fn)(void))
{
  g_atexit.push_back(fn);
  return 0;
}

void sim_run_atexit()
{
  while (!g_atexit.empty())
  {
    void (*fn)(void) = g_atexit.back();
    g_atexit.pop_back();
    fn();
  }
}

void __wrap_exit(int status)
{
  sim_count(C_EXIT_CALLS);
  if (g_exit_jmp_active)
  {
    // in-process history (mode 2): exit() ends this assembly, not the process
    g_exit_status = status;
    sim_run_atexit();
    sim_event(SEAM_EXIT, 100, (uint64_t)(int64_t)status);
    longjmp(g_exit_jmp, 1);
  }
  sim_run_atexit();
  sim_finish(HOW_EXIT, status);
}

time_t __wrap_time(time_t *t)
{
  time_t now = (time_t)(W.clock0 + W.hdr->sim_usec / 1000000);
  sim_count(C_TIME_CALLS);
  sim_event(SEAM_TIME, (uint64_t)now, 0);
  if (t != NULL) { *t = now; }
  return now;
}

// Every other clock and the C library's random numbers go through the simulated clock too: the value is a function of the
// run (replayable) and moves on with every read, so that code which starts to depend on it stops being repeatable from
// equal states - which is what the repeatability oracles look for.
static uint64_t sim_clock_read_us()
{
  W.clock_reads++;
  sim_count(C_TIME_CALLS);
  uint64_t us = (uint64_t)W.clock0 * 1000000ull + W.hdr->sim_usec + W.clock_reads * 7;
  sim_event(SEAM_TIME, us, 1);
  return us;
}

int __wrap_gettimeofday(struct timeval *tv, void *tz)
{
  (void)tz;
  uint64_t us = sim_clock_read_us();
  if (tv != NULL) { tv->tv_sec = (time_t)(us / 1000000); tv->tv_usec = (suseconds_t)(us % 1000000); }
  return 0;
}

int __real_clock_gettime(clockid_t id, struct timespec *ts);

int __wrap_clock_gettime(clockid_t id, struct timespec *ts)
{
  if (!W.in_child) { return __real_clock_gettime(id, ts); }
  uint64_t us = sim_clock_read_us();
  if (ts != NULL) { ts->tv_sec = (time_t)(us / 1000000); ts->tv_nsec = (long)(us % 1000000) * 1000; }
  return 0;
}

clock_t __wrap_clock(void)
{
  return (clock_t)(sim_clock_read_us() & 0x7fffffff);
}

int __wrap_rand(void)
{
  return (int)((sim_clock_read_us() * 6364136223846793005ull + 1442695040888963407ull) >> 33) & 0x7fffffff;
}

long __wrap_random(void)
{
  return (long)__wrap_rand();
}

int __wrap_usleep(useconds_t us)
{
  W.hdr->sim_usec += us;
  W.hdr->usleeps++;
  sim_event(SEAM_USLEEP, us, 0);
  sim_yield(SEAM_USLEEP);
  return 0;
}

typedef void (*sighandler)(int);
sighandler __real_signal(int sig, sighandler h);

sighandler __wrap_signal(int sig, sighandler h)
{
  if (sig != SIGINT || !W.in_child) { return __real_signal(sig, h); }
  sighandler old = W.sigint_disposition;
  W.sigint_disposition = h;
  sim_event(SEAM_SIGNAL, h == SIG_DFL ? 0 : h == SIG_IGN ? 1 : 2, 0);
  return old;
}

// ---- console (readline)
typedef char **rl_completion_func_t(const char *, int, int);
typedef char *rl_compentry_func_t(const char *, int);
rl_completion_func_t *rl_attempted_completion_function = NULL;
int rl_attempted_completion_over = 0;
char *rl_line_buffer = NULL;

char **rl_completion_matches(const char *text, rl_compentry_func_t *f)
{
  return NULL;
}

void add_history(const char *line) { }

char *readline(const char *prompt)
{
  SharedHeader *h = W.hdr;
  sim_count(C_READLINE);
  const char *line;
  uint32_t pos = h->console_pos;
  if (pos < W.console.size() && W.console[pos] == "\x04")
  {
    // scripted end of input (Ctrl-D): readline() returns NULL from here on
    h->console_pos = (uint32_t)W.console.size() - 1;      // stay on the EOF entry
    sim_event(SEAM_READLINE, pos, 4);
    if (++W.eof_reads > 3) { sim_finish(HOW_QUIT_IGNORED, 0); }
    if (prompt != NULL) { fputs(prompt, stdout); fputs("^D\n", stdout); }
    return NULL;
  }
  if (pos < W.console.size())
  {
    line = W.console[pos].c_str();
  }
  else
  {
    // The script always ends with "quit".  Being asked for more input means
    // the process was told to terminate and did not.
    sim_count(C_QUIT_IGNORED);
    if (pos >= W.console.size() + 3) { sim_finish(HOW_QUIT_IGNORED, 0); }
    line = "quit";
  }
  sim_event(SEAM_READLINE, pos, hash_bytes(line, strlen(line)));
  if (prompt != NULL) { fputs(prompt, stdout); }
  fputs(line, stdout);
  fputc('\n', stdout);
  // the command counts as executing only after its echo: a SIGINT planned "during" it is a Ctrl-C
  // at the running program, not at the prompt
  h->console_pos = pos + 1;
  size_t n = strlen(line);
  char *copy = (char *)__real_malloc(n + 1);
  memcpy(copy, line, n + 1);
  return copy;
}

const char *__asan_default_options() __attribute__((used, visibility("default")));
const char *__asan_default_options()
{
  return "exitcode=77:detect_leaks=0:abort_on_error=0:allocator_may_return_null=1:"
         "handle_segv=1:handle_sigfpe=1:detect_stack_use_after_return=0:"
         "max_allocation_size_mb=1024:print_summary=1:symbolize=1";
}

const char *__ubsan_default_options() __attribute__((used, visibility("default")));
const char *__ubsan_default_options()
{
  return "print_stacktrace=1:halt_on_error=1:exitcode=77";
}

}

// ---------------------------------------------------------------- child lifecycle

void sim_finish(int how, int status)
{
  SharedHeader *h = W.hdr;
  // hook H2 of /repo: bytes of the image that the last assembly's pass 2 never wrote (counted when the output was written)
  h->counters[NCOUNTERS - 3] = naken_asm_verif_stale_count;
  h->counters[NCOUNTERS - 2] = naken_asm_verif_stale_first;
  h->counters[NCOUNTERS - 4] = naken_asm_verif_rewritten_count;
  W.event_ceiling = 0;
  if (how == HOW_EXIT && g_in_callback == 0)
  {
    fflush(NULL);
  }
  W.fill_enabled = false;
  sim_event(SEAM_EXIT, (uint64_t)how, (uint64_t)(int64_t)status);

  WBuf out;
  uint32_t nfiles = 0;
  WBuf files;
  for (std::map<std::string, std::shared_ptr<SimFile> >::iterator it = W.fs.begin();
       it != W.fs.end(); ++it)
  {
    if (!it->second->dirty || it->second->is_dir) { continue; }
    files.str(it->first);
    files.u8(0);
    files.bytes(it->second->data.data(), it->second->data.size());
    nfiles++;
  }
  for (size_t i = 0; i < W.deleted.size(); i++)
  {
    if (W.fs.find(W.deleted[i]) != W.fs.end()) { continue; }
    files.str(W.deleted[i]);
    files.u8(1);
    files.bytes("", 0);
    nfiles++;
  }
  out.u32(nfiles);
  out.b.insert(out.b.end(), files.b.begin(), files.b.end());
  out.u32((uint32_t)W.faults.size());
  for (size_t i = 0; i < W.faults.size(); i++) { out.u32(W.faults[i].fired); }
  out.bytes(g_extra.b.data(), g_extra.b.size());

  if (out.b.size() > W.result_cap)
  {
    h->how = HOW_HARNESS;
    h->status = 1;
  }
  else
  {
    memcpy(W.result_buf, out.b.data(), out.b.size());
    h->result_len = out.b.size();
    h->how = how;
    h->status = status;
  }
  h->done = 1;
  _exit(0);
}

static void __attribute__((noinline, no_sanitize_address)) paint_stack(int mode, uint64_t seed)
{
  volatile uint8_t buf[512 * 1024];
  uint8_t v = mode == 0 ? 0x00 : mode == 1 ? 0xff : mode == 2 ? 0xa5 : 0;
  if (mode <= 2)
  {
    memset((void *)buf, v, sizeof(buf));
  }
  else
  {
    uint64_t s = seed | 1;
    for (size_t i = 0; i < sizeof(buf); i += 8)
    {
      s ^= s << 13; s ^= s >> 7; s ^= s << 17;
      uint64_t x = s | 0x0101010101010101ULL;
      memcpy((void *)(buf + i), &x, 8);
    }
  }
  asm volatile("" : : "r"(buf) : "memory");
}

static int run_main(int which, std::vector<std::string> &args)
{
  std::vector<char *> argv;
  for (size_t i = 0; i < args.size(); i++) { argv.push_back((char *)args[i].c_str()); }
  argv.push_back(NULL);
  int argc = (int)args.size();
  if (which == 0) { return naken_asm_main(argc, argv.data()); }
  return naken_util_main(argc, argv.data());
}

static void child_main(const uint8_t *req, size_t len, int stderr_fd)
{
  W.in_child = true;
  int devnull = open("/dev/null", O_RDWR);
  dup2(devnull, 0);
  dup2(devnull, 1);
  dup2(stderr_fd, 2);

  RBuf rq(req, len);
  int mode = rq.u8();
  uint32_t nargs = rq.u32();
  std::vector<std::string> args;
  for (uint32_t i = 0; i < nargs && !rq.bad; i++) { args.push_back(rq.str()); }
  W.clock0 = rq.u64();
  W.heap_fill_mode = rq.u8();
  W.heap_state = rq.u64() | 1;
  int stack_mode = rq.u8();
  uint64_t stack_seed = rq.u64();
  W.chunk_state = rq.u64();
  W.fd_limit = rq.u32();
  W.event_ceiling = rq.u64();
  W.stdout_ceiling = rq.u64();
  rq.u8();                                 // (reserved)
  W.cwd = rq.str();
  uint32_t nfiles = rq.u32();
  for (uint32_t i = 0; i < nfiles && !rq.bad; i++)
  {
    std::string path = rq.str();
    int kind = rq.u8();
    std::string data = rq.str();
    std::shared_ptr<SimFile> f(new SimFile());
    f->is_dir = kind == 1;
    f->data.assign(data.begin(), data.end());
    W.fs[sim_normalise(path.c_str())] = f;
  }
  uint32_t nfaults = rq.u32();
  for (uint32_t i = 0; i < nfaults && !rq.bad; i++)
  {
    Fault f;
    f.kind = rq.u8();
    f.path = rq.str();
    f.nth = rq.u32();
    f.offset = rq.u64();
    f.err = (int)rq.u32();
    f.fired = 0;
    W.faults.push_back(f);
  }
  uint32_t nlines = rq.u32();
  for (uint32_t i = 0; i < nlines && !rq.bad; i++) { W.console.push_back(rq.str()); }
  uint32_t nsigs = rq.u32();
  for (uint32_t i = 0; i < nsigs && !rq.bad; i++)
  {
    SigPlan s;
    s.trigger = rq.u8();
    s.k = rq.u64();
    s.after = rq.u32();
    s.repeat = rq.u32();
    s.done = false;
    W.sigs.push_back(s);
  }
  if (rq.bad)
  {
    W.hdr->how = HOW_HARNESS;
    W.hdr->done = 1;
    _exit(0);
  }

  W.sigint_disposition = SIG_DFL;
  W.open_streams = 0;

  cookie_io_functions_t io;
  io.read = NULL;
  io.write = out_write;
  io.seek = NULL;
  io.close = NULL;
  FILE *cap = fopencookie(NULL, "w", io);
  setvbuf(cap, NULL, _IOLBF, 1 << 16);
  stdout = cap;

  W.fill_enabled = true;
  paint_stack(stack_mode, stack_seed);

  int status = 0;
  switch (mode)
  {
    case 0:
    case 1: status = run_main(mode, args); sim_run_atexit(); break;
    case 2: status = engine_inproc_asm(rq); break;
    case 3: status = engine_util_api(rq); break;
    case 4: status = engine_c14(rq); break;
    case 5: status = engine_c15(rq); break;
    default: W.hdr->how = HOW_HARNESS; W.hdr->done = 1; _exit(0);
  }
  sim_finish(HOW_EXIT, status);
}

// ---------------------------------------------------------------- parent

static bool read_full(int fd, void *p, size_t n)
{
  uint8_t *q = (uint8_t *)p;
  while (n > 0)
  {
    ssize_t k = read(fd, q, n);
    if (k == 0) { return false; }
    if (k < 0) { if (errno == EINTR) { continue; } return false; }
    q += k; n -= k;
  }
  return true;
}

static bool write_full(int fd, const void *p, size_t n)
{
  const uint8_t *q = (const uint8_t *)p;
  while (n > 0)
  {
    ssize_t k = write(fd, q, n);
    if (k < 0) { if (errno == EINTR) { continue; } return false; }
    q += k; n -= k;
  }
  return true;
}

static double now_s()
{
  struct timespec ts;
  clock_gettime(CLOCK_MONOTONIC, &ts);
  return ts.tv_sec + ts.tv_nsec * 1e-9;
}

static double child_cpu_s(pid_t pid)
{
  clockid_t cid;
  if (clock_getcpuclockid(pid, &cid) != 0) { return -1; }
  struct timespec ts;
  if (clock_gettime(cid, &ts) != 0) { return -1; }
  return ts.tv_sec + ts.tv_nsec * 1e-9;
}

int main(int argc, char *argv[])
{
  setenv("TZ", "UTC", 1);
  tzset();
  signal(SIGPIPE, SIG_IGN);

  size_t arena = 4096 + STDOUT_CAP + RESULT_CAP;
  uint8_t *mem = (uint8_t *)mmap(NULL, arena, PROT_READ | PROT_WRITE,
                                 MAP_SHARED | MAP_ANONYMOUS | MAP_NORESERVE, -1, 0);
  if (mem == MAP_FAILED) { perror("mmap"); return 2; }
  W.hdr = (SharedHeader *)mem;
  W.stdout_buf = mem + 4096;
  W.stdout_cap = STDOUT_CAP;
  W.result_buf = mem + 4096 + STDOUT_CAP;
  W.result_cap = RESULT_CAP;
  W.in_child = false;
  W.fill_enabled = false;

  int stderr_fd = memfd_create("verif-stderr", 0);
  if (stderr_fd < 0) { perror("memfd_create"); return 2; }

  // Code under test that bypasses the wrapped seams (open()/creat() instead of fopen()) must not
  // litter the caller's directory: every child runs in a private, empty scratch directory, and
  // whatever appears there is counted (counter 63) and removed.
  char scratch[64] = "/tmp/verif-exec-XXXXXX";
  if (mkdtemp(scratch) == NULL || chdir(scratch) != 0) { perror("scratch dir"); return 2; }

  std::vector<uint8_t> req;
  for (;;)
  {
    uint32_t len;
    if (!read_full(0, &len, 4)) { break; }
    req.resize(len);
    if (len > 0 && !read_full(0, req.data(), len)) { break; }
    if (len < 8) { break; }
    uint32_t cpu_ms, wall_ms;
    memcpy(&cpu_ms, req.data(), 4);
    memcpy(&wall_ms, req.data() + 4, 4);

    // reset shared state; only touched pages cost anything
    uint64_t used_out = W.hdr->stdout_len;
    memset((void *)W.hdr, 0, sizeof(SharedHeader));
    (void)used_out;
    if (ftruncate(stderr_fd, 0) != 0) { }
    lseek(stderr_fd, 0, SEEK_SET);

    int pfd[2];
    if (pipe(pfd) != 0) { perror("pipe"); return 2; }
    double t0 = now_s();
    pid_t pid = fork();
    if (pid < 0) { perror("fork"); return 2; }
    if (pid == 0)
    {
      close(pfd[0]);
      child_main(req.data() + 8, len - 8, stderr_fd);
      _exit(0);
    }
    close(pfd[1]);

    bool killed = false;
    double cpu_used = 0;
    for (;;)
    {
      struct pollfd p;
      p.fd = pfd[0];
      p.events = POLLIN;
      p.revents = 0;
      int r = poll(&p, 1, 50);
      if (r > 0) { break; }        // EOF: every write end is closed, the child is gone
      double cpu = child_cpu_s(pid);
      if (cpu >= 0) { cpu_used = cpu; }
      double wall = now_s() - t0;
      if ((cpu >= 0 && cpu * 1000.0 > cpu_ms) || wall * 1000.0 > wall_ms)
      {
        kill(pid, SIGKILL);
        killed = true;
        break;
      }
    }
    close(pfd[0]);
    int wst = 0;
    while (waitpid(pid, &wst, 0) < 0 && errno == EINTR) { }
    double wall = now_s() - t0;

    // stderr text
    std::vector<uint8_t> errtxt;
    off_t elen = lseek(stderr_fd, 0, SEEK_END);
    if (elen > 0)
    {
      if (elen > (1 << 20)) { elen = 1 << 20; }
      errtxt.resize(elen);
      if (pread(stderr_fd, errtxt.data(), elen, 0) != elen) { errtxt.clear(); }
    }

    SharedHeader *h = W.hdr;
    {
      DIR *d = opendir(scratch);
      uint64_t escaped = 0;
      if (d != NULL)
      {
        struct dirent *e;
        while ((e = readdir(d)) != NULL)
        {
          if (strcmp(e->d_name, ".") == 0 || strcmp(e->d_name, "..") == 0) { continue; }
          std::string p = std::string(scratch) + "/" + e->d_name;
          if (remove(p.c_str()) != 0)
          {
            std::string cmd = "rm -rf '" + p + "'";
            if (system(cmd.c_str()) != 0) { }
          }
          escaped++;
        }
        closedir(d);
      }
      h->counters[NCOUNTERS - 1] = escaped;
    }
    WBuf rs;
    rs.u8(h->done ? 1 : 0);
    rs.u32((uint32_t)h->how);
    rs.u32((uint32_t)h->status);
    rs.u8(killed ? 1 : 0);
    rs.u8(WIFSIGNALED(wst) ? 1 : 0);
    rs.u32(WIFSIGNALED(wst) ? WTERMSIG(wst) : WEXITSTATUS(wst));
    rs.u64(h->event_hash);
    rs.u64(h->event_count);
    rs.u64(h->usleeps);
    rs.u64(h->stdout_lines);
    rs.u64(h->sim_usec);
    rs.u32(h->console_pos);
    rs.u32(h->stdout_truncated);
    rs.u32((uint32_t)(wall * 1e6));
    rs.u32((uint32_t)(cpu_used * 1e6));
    rs.u32(NCOUNTERS);
    for (int i = 0; i < NCOUNTERS; i++) { rs.u64(h->counters[i]); }
    rs.u32(RING);
    for (int i = 0; i < RING; i++) { rs.u32(h->ring_seam[i]); rs.u64(h->ring_a[i]); }
    rs.bytes(W.stdout_buf, h->stdout_len);
    rs.bytes(errtxt.data(), errtxt.size());
    if (h->done) { rs.bytes(W.result_buf, h->result_len); } else { rs.bytes("", 0); }

    uint32_t rl = (uint32_t)rs.b.size();
    if (!write_full(1, &rl, 4) || !write_full(1, rs.b.data(), rl)) { break; }

    // give back the pages the child dirtied in the shared arena
    if (h->stdout_len > (1u << 20)) { madvise(W.stdout_buf, STDOUT_CAP, MADV_REMOVE); }
    if (h->result_len > (1u << 20)) { madvise(W.result_buf, RESULT_CAP, MADV_REMOVE); }
  }
  if (chdir("/") == 0) { rmdir(scratch); }
  return 0;
}
