#include "sim.h"
int engine_util_api(RBuf &rq) { return 99; }
