#include "sim.h"
int engine_util_api(RBuf &rq) { return 99; }
int engine_c14(RBuf &rq) { return 99; }
