// Mode 4 (C14): the real SimulateMsp430 in lockstep with an executable
// reference model of the MSP430 16-bit CPU, plus model-only executions that
// give the Python oracle the reference outcome of a routine (final registers,
// cycle count, break_io value) for the run-loop schedules driven through the
// real naken_util main().
//
// The model is written from the MSP430x1xx / x2xx family user's guides
// (SLAU049 / SLAU144, chapter 3 "RISC 16-Bit CPU": 3.2 registers, 3.3
// addressing modes, 3.4 instruction set, tables 3-14..3-16 cycles).  It shares
// no code with /repo.  Cells the guides leave open are reported as EXCLUDED
// (never compared); bits the two guides disagree on are masked (don't care).
#include <stdio.h>
#include <string.h>

#include "sim.h"
#include "core/Memory.h"
#include "simulate/Simulate.h"
#include "simulate/msp430.h"

namespace {

enum { ST_OK = 0, ST_ILLEGAL = 1, ST_EXCLUDED = 2 };

enum { F_C = 1, F_Z = 2, F_N = 4, F_V = 0x100 };

struct Model
{
  uint16_t r[16];
  uint8_t mem[65536];
  uint64_t cycles;
  int nested;            // call/ret balance, as docs/simulating.md describes for -run
  // per-step report
  int nw;                // bytes written by the last step
  uint16_t waddr[4];
  uint16_t dc_mem_addr;  // address of a don't-care byte (PUSH.B upper byte) or 0x10000 encoded as flag below
  bool dc_mem;
  uint16_t dc_sr;        // SR bits not to compare after this step
  const char *why;       // reason of an exclusion
  char mnem[16];
  char smode[8], dmode[8];
  int break_io;          // -1 = none
  int break_val;         // value written to break_io by the last step, -1 = none

  uint16_t rd16(uint16_t a) { return mem[a] | (mem[(uint16_t)(a + 1)] << 8); }
  void wr8(uint16_t a, uint8_t v)
  {
    mem[a] = v;
    if (nw < 4) { waddr[nw++] = a; }
    if (break_io >= 0 && a == (uint16_t)break_io) { break_val = v; }
  }
  void wr16(uint16_t a, uint16_t v)
  {
    mem[a] = v & 0xff; mem[(uint16_t)(a + 1)] = v >> 8;
    if (nw < 3) { waddr[nw++] = a; waddr[nw++] = a + 1; }
  }
};

const char *F1[16] = { 0, 0, 0, 0, "mov", "add", "addc", "subc", "sub", "cmp", "dadd", "bit", "bic", "bis", "xor", "and" };
const char *F2[8] = { "rrc", "swpb", "rra", "sxt", "push", "call", "reti", 0 };
const char *JMP[8] = { "jne", "jeq", "jnc", "jc", "jn", "jge", "jl", "jmp" };

const char *src_mode_name(int reg, int As)
{
  if (reg == 3) { return "const"; }
  if (reg == 2 && As >= 2) { return "const"; }
  if (As == 0) { return reg == 0 ? "PC" : reg == 1 ? "SP" : reg == 2 ? "SR" : "Rn"; }
  if (As == 1) { return reg == 0 ? "sym" : reg == 2 ? "abs" : reg == 1 ? "x(SP)" : "x(Rn)"; }
  if (As == 2) { return reg == 0 ? "@PC" : reg == 1 ? "@SP" : "@Rn"; }
  return reg == 0 ? "#imm" : reg == 1 ? "@SP+" : "@Rn+";
}

const char *dst_mode_name(int reg, int Ad)
{
  if (Ad == 0) { return reg == 0 ? "PC" : reg == 1 ? "SP" : reg == 2 ? "SR" : reg == 3 ? "CG" : "Rn"; }
  return reg == 0 ? "sym" : reg == 2 ? "abs" : reg == 1 ? "x(SP)" : reg == 3 ? "x(CG)" : "x(Rn)";
}

bool is_const_src(int reg, int As) { return reg == 3 || (reg == 2 && As >= 2); }

// Table 3-16 (format I) / 3-15 (format II) / jumps: 2.
int cycles_f1(int sreg, int As, int dreg, int Ad)
{
  if (is_const_src(sreg, As)) { As = 0; }
  if (As == 0) { return Ad == 1 ? 4 : (dreg == 0 ? 2 : 1); }
  if (As == 2) { return Ad == 1 ? 5 : 2; }
  if (As == 3) { return Ad == 1 ? 5 : (dreg == 0 ? 3 : 2); }
  return Ad == 1 ? 6 : 3;
}

int cycles_f2(int o, int reg, int As)
{
  if (is_const_src(reg, As)) { As = 0; }
  if (o == 6) { return 5; }
  if (o == 5) { return As == 0 ? 4 : As == 2 ? 4 : 5; }
  if (o == 4)
  {
    if (As == 0) { return 3; }
    if (As == 2) { return 4; }
    if (As == 3) { return reg == 0 ? 4 : 5; }
    return 5;
  }
  return As == 0 ? 1 : As == 1 ? 4 : 3;
}

struct Operand
{
  bool is_reg;
  bool is_const;
  int reg;
  uint16_t ea;
  uint16_t val;
};

// Source operand (3.3.1-3.3.7).  Returns false on an excluded cell.
bool fetch_src(Model &m, int reg, int As, int bw, Operand &op)
{
  op.is_reg = false; op.is_const = false; op.reg = reg; op.ea = 0; op.val = 0;
  uint16_t mask = bw ? 0xff : 0xffff;
  if (reg == 3)
  {
    static const uint16_t c[4] = { 0, 1, 2, 0xffff };
    op.is_const = true; op.val = c[As] & mask; return true;
  }
  if (reg == 2 && As >= 2)
  {
    op.is_const = true; op.val = As == 2 ? 4 : 8; return true;
  }
  if (As == 0)
  {
    op.is_reg = true; op.val = m.r[reg] & mask; return true;
  }
  if (As == 1)
  {
    uint16_t x = m.rd16(m.r[0]);
    uint16_t base = reg == 0 ? m.r[0] : reg == 2 ? 0 : m.r[reg];
    m.r[0] += 2;
    op.ea = base + x;
  }
  else if (As == 2)
  {
    op.ea = m.r[reg];
  }
  else
  {
    op.ea = m.r[reg];
    // 3.3.6: Rn is incremented by 1 for .B and by 2 for .W; PC (immediate mode) and SP
    // (POP.B description: "the stack pointer is incremented by two") always by 2.
    m.r[reg] += (bw && reg != 0 && reg != 1) ? 1 : 2;
  }
  if (!bw && (op.ea & 1)) { m.why = "word access at an odd address"; return false; }
  op.val = bw ? m.mem[op.ea] : m.rd16(op.ea);
  return true;
}

bool bcd_ok(uint16_t v, int bw)
{
  for (int i = 0; i < (bw ? 2 : 4); i++) { if (((v >> (4 * i)) & 0xf) > 9) { return false; } }
  return true;
}

void set_nz(Model &m, uint16_t res, int bw)
{
  uint16_t sign = bw ? 0x80 : 0x8000;
  m.r[2] &= ~(F_N | F_Z);
  if (res & sign) { m.r[2] |= F_N; }
  if (res == 0) { m.r[2] |= F_Z; }
}

void set_flag(Model &m, int f, bool v) { if (v) { m.r[2] |= f; } else { m.r[2] &= ~f; } }

int step(Model &m)
{
  m.nw = 0; m.dc_mem = false; m.dc_sr = 0; m.why = ""; m.break_val = -1;
  m.mnem[0] = 0; m.smode[0] = 0; m.dmode[0] = 0;
  if (m.r[0] & 1) { m.why = "odd PC"; return ST_EXCLUDED; }
  uint16_t opc = m.rd16(m.r[0]);
  m.r[0] += 2;

  if ((opc & 0xe000) == 0x2000)
  {
    int cond = (opc >> 10) & 7;
    int off = opc & 0x3ff;
    if (off & 0x200) { off -= 0x400; }
    snprintf(m.mnem, sizeof(m.mnem), "%s", JMP[cond]);
    int c = m.r[2] & F_C ? 1 : 0, z = m.r[2] & F_Z ? 1 : 0, n = m.r[2] & F_N ? 1 : 0, v = m.r[2] & F_V ? 1 : 0;
    bool take = false;
    switch (cond)
    {
      case 0: take = !z; break;
      case 1: take = z; break;
      case 2: take = !c; break;
      case 3: take = c; break;
      case 4: take = n; break;
      case 5: take = !(n ^ v); break;
      case 6: take = (n ^ v); break;
      case 7: take = true; break;
    }
    if (take) { m.r[0] += 2 * off; }
    m.cycles += 2;
    return ST_OK;
  }

  if ((opc & 0xfc00) == 0x1000)
  {
    int o = (opc >> 7) & 7;
    int bw = (opc >> 6) & 1;
    int As = (opc >> 4) & 3;
    int reg = opc & 15;
    if (o == 7) { return ST_ILLEGAL; }
    if (bw && (o == 1 || o == 3 || o == 5 || o == 6)) { return ST_ILLEGAL; }
    snprintf(m.mnem, sizeof(m.mnem), "%s%s", F2[o], bw ? ".b" : "");
    if (o == 6)
    {
      if (opc != 0x1300) { return ST_ILLEGAL; }
      // 3.4.6.39 RETI: TOS -> SR, SP+2 -> SP, TOS -> PC, SP+2 -> SP
      if (m.r[1] & 1) { m.why = "odd SP"; return ST_EXCLUDED; }
      m.r[2] = m.rd16(m.r[1]); m.r[1] += 2;
      m.r[0] = m.rd16(m.r[1]); m.r[1] += 2;
      m.cycles += 5;
      return ST_OK;
    }
    snprintf(m.smode, sizeof(m.smode), "%s", src_mode_name(reg, As));
    bool constant = is_const_src(reg, As);
    if (o <= 3)
    {
      // read-modify-write of the single operand
      if (constant || (As == 3 && reg == 0)) { m.why = "constant or immediate as destination"; return ST_EXCLUDED; }
      if (As == 0 && (reg == 0 || reg == 1)) { m.why = "PC/SP as RMW destination"; return ST_EXCLUDED; }
      if (As == 0 && reg == 2 && (bw || o != 1)) { m.why = "flag-setting or byte RMW instruction on SR"; return ST_EXCLUDED; }
    }
    if ((o == 4 || o == 5) && reg == 1) { m.why = "PUSH/CALL with SP as operand"; return ST_EXCLUDED; }
    if (m.r[1] & 1) { if (o == 4 || o == 5) { m.why = "odd SP"; return ST_EXCLUDED; } }
    Operand s;
    if (o == 4)
    {
      // PUSH: SP - 2 -> SP, src -> @SP
      if (!fetch_src(m, reg, As, bw, s)) { return ST_EXCLUDED; }
      m.r[1] -= 2;
      if (bw)
      {
        m.wr8(m.r[1], s.val & 0xff);
        m.dc_mem = true; m.dc_mem_addr = m.r[1] + 1;   // upper byte of the stack word: not specified
      }
      else
      {
        m.wr16(m.r[1], s.val);
      }
      m.cycles += cycles_f2(o, reg, As);
      return ST_OK;
    }
    if (o == 5)
    {
      // CALL: dst -> tmp, SP - 2 -> SP, PC -> @SP, tmp -> PC
      if (!fetch_src(m, reg, As, 0, s)) { return ST_EXCLUDED; }
      m.r[1] -= 2;
      m.wr16(m.r[1], m.r[0]);
      m.r[0] = s.val;
      m.nested++;
      m.cycles += cycles_f2(o, reg, As);
      return ST_OK;
    }
    // RRC / SWPB / RRA / SXT.  For @Rn+ the operand is written back to the address read.
    if (!fetch_src(m, reg, As, bw, s)) { return ST_EXCLUDED; }
    uint16_t mask = bw ? 0xff : 0xffff, sign = bw ? 0x80 : 0x8000;
    uint16_t d = s.val & mask, res = 0;
    switch (o)
    {
      case 0:
      {
        int cin = m.r[2] & F_C ? 1 : 0;
        res = (d >> 1) | (cin ? sign : 0);
        set_flag(m, F_C, d & 1);
        set_nz(m, res, bw);
        // SLAU144 says V is reset, SLAU049 "set if initial destination positive and initial carry set":
        // not compared in lockstep; the model itself follows the newer guide
        set_flag(m, F_V, false);
        m.dc_sr = F_V;
        break;
      }
      case 1:
        res = (d >> 8) | (d << 8);
        break;
      case 2:
        res = (d >> 1) | (d & sign);
        set_flag(m, F_C, d & 1);
        set_nz(m, res, bw);
        set_flag(m, F_V, false);
        break;
      case 3:
        res = (d & 0x80) ? (d | 0xff00) : (d & 0x00ff);
        set_nz(m, res, 0);
        set_flag(m, F_C, res != 0);
        set_flag(m, F_V, false);
        break;
    }
    if (s.is_reg) { m.r[reg] = res & mask; }
    else if (bw) { m.wr8(s.ea, res & 0xff); }
    else { m.wr16(s.ea, res); }
    m.cycles += cycles_f2(o, reg, As);
    return ST_OK;
  }

  if (opc < 0x4000) { return ST_ILLEGAL; }      // 0x0000-0x0fff, 0x1400-0x3fff minus jumps: MSP430X or undefined

  int o = opc >> 12;
  int sreg = (opc >> 8) & 15, dreg = opc & 15;
  int Ad = (opc >> 7) & 1, bw = (opc >> 6) & 1, As = (opc >> 4) & 3;
  snprintf(m.mnem, sizeof(m.mnem), "%s%s", F1[o], bw ? ".b" : "");
  snprintf(m.smode, sizeof(m.smode), "%s", src_mode_name(sreg, As));
  snprintf(m.dmode, sizeof(m.dmode), "%s", dst_mode_name(dreg, Ad));
  if (opc == 0x4130) { m.nested--; }
  if (dreg == 3 && Ad == 1) { m.why = "x(R3) as destination"; return ST_EXCLUDED; }
  if (bw && Ad == 0 && (dreg == 0 || dreg == 1)) { m.why = "byte operation on PC/SP"; return ST_EXCLUDED; }
  // SR as the destination of an instruction that also sets the status bits: which of the two writes
  // survives is not stated in the guides (MOV, BIC, BIS to SR do not touch the flags and are defined)
  if (Ad == 0 && dreg == 2 && o != 4 && o != 12 && o != 13 && o != 9 && o != 11) { m.why = "flag-setting instruction with SR as destination"; return ST_EXCLUDED; }
  // @Rn+ with the same register as destination (register or index) is defined: 3.3.6 "Rn is incremented
  // afterwards" - after the source operand fetch, i.e. before the destination is evaluated.
  if (As >= 2 && sreg == 0 && As == 2) { m.why = "@PC as source"; return ST_EXCLUDED; }
  uint16_t mask = bw ? 0xff : 0xffff, sign = bw ? 0x80 : 0x8000;
  Operand s;
  if (!fetch_src(m, sreg, As, bw, s)) { return ST_EXCLUDED; }
  // destination
  bool d_is_reg = Ad == 0;
  uint16_t dea = 0, d = 0;
  bool need_dst = o != 4;
  if (d_is_reg)
  {
    d = m.r[dreg] & mask;
    if (dreg == 3) { d = 0; }     // R3 as destination: result is discarded; reading it gives constant 0
  }
  else
  {
    uint16_t x = m.rd16(m.r[0]);
    uint16_t base = dreg == 0 ? m.r[0] : dreg == 2 ? 0 : m.r[dreg];
    m.r[0] += 2;
    dea = base + x;
    if (!bw && (dea & 1)) { m.why = "word access at an odd address"; return ST_EXCLUDED; }
    if (need_dst) { d = bw ? m.mem[dea] : m.rd16(dea); }
  }
  uint16_t sv = s.val & mask;
  uint16_t res = 0;
  bool write = true;
  switch (o)
  {
    case 4: res = sv; break;
    case 5: case 6: case 7: case 8: case 9:
    {
      uint32_t a = d, b, cin;
      if (o == 5) { b = sv; cin = 0; }
      else if (o == 6) { b = sv; cin = m.r[2] & F_C ? 1 : 0; }
      else if (o == 7) { b = (~sv) & mask; cin = m.r[2] & F_C ? 1 : 0; }
      else { b = (~sv) & mask; cin = 1; }
      uint32_t full = a + b + cin;
      res = full & mask;
      set_flag(m, F_C, full > mask);
      set_nz(m, res, bw);
      set_flag(m, F_V, ((~(a ^ b)) & (a ^ res) & sign) != 0);
      if (o == 9) { write = false; }
      break;
    }
    case 10:
    {
      if (!bcd_ok(sv, bw) || !bcd_ok(d, bw)) { m.why = "DADD on a non-BCD operand"; return ST_EXCLUDED; }
      int carry = m.r[2] & F_C ? 1 : 0;
      for (int i = 0; i < (bw ? 2 : 4); i++)
      {
        int t = ((sv >> (4 * i)) & 15) + ((d >> (4 * i)) & 15) + carry;
        carry = t > 9;
        if (carry) { t -= 10; }
        res |= t << (4 * i);
      }
      set_flag(m, F_C, carry);
      set_nz(m, res, bw);
      m.dc_sr = F_V;    // "V: Undefined"
      break;
    }
    case 11: case 15:
      res = sv & d;
      set_nz(m, res, bw);
      set_flag(m, F_C, res != 0);
      set_flag(m, F_V, false);
      if (o == 11) { write = false; }
      break;
    case 12: res = d & ~sv & mask; break;
    case 13: res = d | sv; break;
    case 14:
      res = sv ^ d;
      set_nz(m, res, bw);
      set_flag(m, F_C, res != 0);
      set_flag(m, F_V, (sv & sign) && (d & sign));
      break;
  }
  if (write)
  {
    if (d_is_reg)
    {
      if (dreg != 3) { m.r[dreg] = res & mask; }
    }
    else if (bw) { m.wr8(dea, res & 0xff); }
    else { m.wr16(dea, res); }
  }
  m.cycles += cycles_f1(sreg, As, dreg, Ad);
  return ST_OK;
}

Model g_model;

void load_windows(RBuf &rq, Model &m, Memory *memory)
{
  uint32_t nwin = rq.u32();
  for (uint32_t i = 0; i < nwin && !rq.bad; i++)
  {
    uint32_t addr = rq.u32();
    std::string data = rq.str();
    for (size_t k = 0; k < data.size(); k++)
    {
      m.mem[(uint16_t)(addr + k)] = (uint8_t)data[k];
      if (memory != NULL) { memory->write8((uint16_t)(addr + k), (uint8_t)data[k]); }
    }
  }
}

}  // namespace

int engine_c14(RBuf &rq)
{
  uint32_t ncases = rq.u32();
  Model &m = g_model;
  for (uint32_t c = 0; c < ncases && !rq.bad; c++)
  {
    uint32_t id = rq.u32();
    int kind = rq.u8();        // 0 = lockstep, 1 = model only (reference outcome of a routine)
    memset(&m, 0, sizeof(m));
    m.break_io = -1;
    for (int i = 0; i < 16; i++) { m.r[i] = (uint16_t)rq.u32(); }
    uint32_t nsteps = rq.u32();
    int break_io = (int)rq.u32();
    uint32_t stop_pc = rq.u32();     // model-only: stop when PC == stop_pc after a step (0x10000 = never)

    if (kind == 1)
    {
      load_windows(rq, m, NULL);
      m.break_io = break_io == (int)0xffffffff ? -1 : break_io;
      uint32_t n = 0;
      const char *end = "steps";
      int st = ST_OK;
      for (; n < nsteps; n++)
      {
        st = step(m);
        if (st != ST_OK) { end = st == ST_ILLEGAL ? "illegal" : "excluded"; break; }
        if (m.break_val >= 0) { n++; end = "break_io"; break; }
        if (m.nested < 0) { n++; end = "ret"; break; }
        if (m.r[0] == stop_pc) { n++; end = "stop_pc"; break; }
      }
      printf("@@MODEL %u end=%s steps=%u cycles=%llu break=%d why=%s regs=", id, end, n,
             (unsigned long long)m.cycles, m.break_val, m.why);
      for (int i = 0; i < 16; i++) { printf("%04x%s", m.r[i], i == 15 ? "" : ","); }
      uint64_t h = 0xcbf29ce484222325ULL;
      for (int i = 0; i < 65536; i++) { h ^= m.mem[i]; h *= 0x100000001b3ULL; }
      printf(" memhash=%016llx\n", (unsigned long long)h);
      continue;
    }

    Memory *memory = new Memory();
    load_windows(rq, m, memory);
    Simulate *base = SimulateMsp430::init(memory);
    SimulateMsp430 *sim = (SimulateMsp430 *)base;
    sim->set_show(false);
    for (int i = 0; i < 16; i++)
    {
      char name[8];
      snprintf(name, sizeof(name), "r%d", i);
      sim->set_reg(name, m.r[i]);
    }
    sim->enable_step_mode();
    W.hdr->counters[C_ENGINE0] = id;
    printf("@@CASE %u\n", id);
    uint32_t executed = 0;
    for (uint32_t n = 0; n < nsteps; n++)
    {
      uint16_t pc0 = m.r[0];
      uint16_t opc = m.rd16(pc0);
      uint16_t sr0 = m.r[2];
      int st = step(m);
      if (st == ST_EXCLUDED)
      {
        printf("@@EXCL %u step=%u op=%04x why=%s\n", id, n, opc, m.why);
        break;
      }
      int cyc0 = sim->cycle_count;
      // the run banner is not interesting here
      int ret = sim->run(-1, 1);
      executed++;
      if (st == ST_ILLEGAL)
      {
        // outside the 16-bit core's instruction set: what the simulator does is C15's question
        printf("@@UNDEF %u step=%u op=%04x ret=%d\n", id, n, opc, ret);
        break;
      }
      const char *comp = NULL;
      char detail[160];
      detail[0] = 0;
      if (ret != 0) { comp = "reported-illegal"; snprintf(detail, sizeof(detail), "ret=%d", ret); }
      if (comp == NULL && sim->reg[0] != m.r[0]) { comp = "PC"; snprintf(detail, sizeof(detail), "sim=%04x model=%04x", sim->reg[0], m.r[0]); }
      if (comp == NULL && sim->reg[1] != m.r[1]) { comp = "SP"; snprintf(detail, sizeof(detail), "sim=%04x model=%04x", sim->reg[1], m.r[1]); }
      if (comp == NULL)
      {
        for (int i = 4; i < 16; i++)
        {
          if (sim->reg[i] != m.r[i])
          {
            comp = "register";
            snprintf(detail, sizeof(detail), "r%d sim=%04x model=%04x", i, sim->reg[i], m.r[i]);
            break;
          }
        }
      }
      if (comp == NULL)
      {
        uint16_t diff = (sim->reg[2] ^ m.r[2]) & 0x1ff & ~m.dc_sr;
        if (diff != 0)
        {
          comp = (diff & F_C) ? "C" : (diff & F_Z) ? "Z" : (diff & F_N) ? "N" : (diff & F_V) ? "V" : "SR-other";
          snprintf(detail, sizeof(detail), "sr sim=%04x model=%04x before=%04x", sim->reg[2], m.r[2], sr0);
        }
      }
      if (comp == NULL)
      {
        for (int i = 0; i < m.nw; i++)
        {
          uint16_t a = m.waddr[i];
          if (memory->read8(a) != m.mem[a])
          {
            comp = "memory";
            snprintf(detail, sizeof(detail), "[%04x] sim=%02x model=%02x", a, memory->read8(a), m.mem[a]);
            break;
          }
        }
      }
      if (comp == NULL && (uint64_t)(sim->cycle_count - cyc0) != 0)
      {
        // cycle_count advances by the table value of this instruction
      }
      if (m.dc_mem) { m.mem[m.dc_mem_addr] = memory->read8(m.dc_mem_addr); }
      // don't-care status bits follow the simulator
      m.r[2] = (m.r[2] & ~m.dc_sr) | (sim->reg[2] & m.dc_sr);
      m.r[2] = (m.r[2] & 0x1ff) | (sim->reg[2] & ~0x1ff);
      m.r[3] = sim->reg[3];
      if (comp == NULL && (uint64_t)sim->cycle_count != m.cycles)
      {
        comp = "cycles";
        snprintf(detail, sizeof(detail), "sim=%d model=%llu", sim->cycle_count, (unsigned long long)m.cycles);
      }
      if (comp != NULL)
      {
        printf("@@DIV %u step=%u op=%04x mnem=%s src=%s dst=%s comp=%s %s | pc=%04x ext=%04x,%04x\n", id, n, opc, m.mnem,
               m.smode[0] ? m.smode : "-", m.dmode[0] ? m.dmode : "-", comp, detail, pc0,
               m.rd16(pc0 + 2), m.rd16(pc0 + 4));
        break;
      }
      if ((m.r[0] & 1) || (m.r[1] & 1))
      {
        printf("@@EXCL %u step=%u op=%04x why=odd value reached PC or SP\n", id, n + 1, opc);
        break;
      }
    }
    // frame: every byte of the 64 KiB space agrees at the end of the case
    int bad = -1;
    for (int a = 0; a < 65536; a++)
    {
      if (memory->read8(a) != m.mem[a]) { bad = a; break; }
    }
    bool diverged = false;
    (void)diverged;
    printf("@@END %u executed=%u frame=%d\n", id, executed, bad);
    fflush(stdout);
    delete base;
    delete memory;
  }
  return 0;
}
