// Simulated world seen by the code under test inside one forked child:
// in-memory file system, clock, SIGINT source, console, event log.
#ifndef VERIF_SIM_H
#define VERIF_SIM_H

#include <stdint.h>
#include <stdio.h>
#include <map>
#include <memory>
#include <string>
#include <vector>

#include "wire.h"

enum Seam
{
  SEAM_FOPEN = 1, SEAM_READ, SEAM_WRITE, SEAM_SEEK, SEAM_CLOSE, SEAM_UNLINK,
  SEAM_TIME, SEAM_USLEEP, SEAM_SIGNAL, SEAM_EXIT, SEAM_READLINE, SEAM_STDOUT,
  SEAM_SIGINT, SEAM_MAX
};

enum How
{
  HOW_EXIT = 0,        // left main by return or exit(): status valid
  HOW_SIGNAL = 1,      // killed by a real signal (SIGSEGV, SIGFPE, SIGABRT...)
  HOW_TIMEOUT = 2,     // cpu budget exhausted, killed by the parent
  HOW_EVENTS = 3,      // deterministic seam-event ceiling exceeded
  HOW_QUIT_IGNORED = 4,// console script ended (with quit) and readline kept being called
  HOW_SIGINT_DFL = 5,  // planned SIGINT arrived while disposition was SIG_DFL
  HOW_SANITIZER = 6,   // sanitizer report (exit code 77 / abort with report on stderr)
  HOW_HARNESS = 7      // harness trouble (bad request, arena overflow)
};

enum FaultKind
{
  F_OPEN_FAIL = 1,   // fopen of path (nth open, 0 = every) fails with err
  F_READ_EOF = 2,    // stream sees EOF at byte offset
  F_READ_EIO = 3,    // read fails with err once offset is reached
  F_WRITE_FAIL = 4,  // writes fail with err after offset bytes were accepted (sticky)
  F_VANISH = 5,      // file is removed from the fs right before its nth open
  F_UNLINK_FAIL = 6, // unlink of path fails with err
  F_NOSEEK = 7       // the stream is a pipe: every seek fails with ESPIPE (reads go on from where they are)
};

struct Fault
{
  int kind;
  std::string path;   // suffix match on the normalised path
  uint32_t nth;       // which open of that path (1-based; 0 = every)
  uint64_t offset;
  int err;
  uint32_t fired;
};

struct SigPlan
{
  int trigger;        // 0 = k-th usleep, 1 = k-th seam event, 2 = k-th stdout line after console line `after`
  uint64_t k;
  uint32_t after;
  uint32_t repeat;    // trigger 3 only: re-deliver every `repeat` yields while the command still runs (0 = once)
  bool done;
};

struct SimFile
{
  std::vector<uint8_t> data;
  bool is_dir;
  bool dirty;
  SimFile() : is_dir(false), dirty(false) { }
};

// Counters that must survive a crashing child live in a MAP_SHARED header.
#define RING 16
#define NCOUNTERS 64
struct SharedHeader
{
  volatile uint32_t done;
  volatile int32_t how;
  volatile int32_t status;
  volatile uint64_t event_hash;
  volatile uint64_t event_count;
  volatile uint64_t usleeps;
  volatile uint64_t stdout_lines;
  volatile uint64_t sim_usec;
  volatile uint64_t counters[NCOUNTERS];
  volatile uint32_t ring_seam[RING];
  volatile uint64_t ring_a[RING];
  volatile uint64_t stdout_len;
  volatile uint32_t stdout_truncated;
  volatile uint64_t result_len;
  volatile uint32_t console_pos;
  volatile uint32_t run_active;
};

enum Counter
{
  C_FOPEN = 0, C_FOPEN_FAIL_NATURAL, C_F_OPEN_FAIL, C_F_READ_EOF, C_F_READ_EIO,
  C_F_WRITE_FAIL, C_F_VANISH, C_F_EMFILE, C_F_UNLINK_FAIL, C_UNLINK_HIT, C_UNLINK_MISS,
  C_SIGINT_HANDLED, C_SIGINT_DFL, C_SIGINT_IN_RUN, C_READ_CHUNKED, C_TIME_CALLS,
  C_EXIT_CALLS, C_WRITE_AFTER_FAIL, C_READLINE, C_QUIT_IGNORED, C_SEEK,
  C_OPEN_DIR, C_STALE_TRUNCATED, C_ENGINE0 /* engines use C_ENGINE0.. */
};

struct World
{
  SharedHeader *hdr;
  uint8_t *stdout_buf; size_t stdout_cap;
  uint8_t *result_buf; size_t result_cap;

  std::map<std::string, std::shared_ptr<SimFile> > fs;
  std::string cwd;
  std::vector<Fault> faults;
  std::map<std::string, uint32_t> open_counts;
  int open_streams;
  uint32_t fd_limit;
  uint64_t chunk_state;      // 0 = full reads
  uint64_t clock0;
  uint64_t clock_reads;   // reads of gettimeofday/clock_gettime/clock/rand by the code under test (each one moves the value on)
  std::vector<std::string> console;
  std::vector<SigPlan> sigs;
  void (*sigint_disposition)(int);
  uint64_t event_ceiling;
  uint64_t stdout_ceiling;   // captured stdout lines (0 = unlimited)
  int heap_fill_mode; uint64_t heap_state;
  bool fill_enabled;
  bool in_child;
  std::vector<std::string> deleted;
  int eof_reads;             // readline() calls answered with NULL after the scripted end of input
};

extern World W;

void sim_event(int seam, uint64_t a, uint64_t b);
void sim_yield(int seam);
void sim_finish(int how, int status) __attribute__((noreturn));
std::string sim_normalise(const char *path);
void sim_count(int counter);

// engines (other TUs) register extra result bytes here
extern WBuf g_extra;

// entry points of the code under test
extern "C++" int naken_asm_main(int argc, char *argv[]);
extern "C++" int naken_util_main(int argc, char *argv[]);

// engines
int engine_inproc_asm(RBuf &rq);
int engine_util_api(RBuf &rq);
int engine_c14(RBuf &rq);
int engine_c15(RBuf &rq);

#endif
