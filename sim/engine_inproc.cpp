// Mode 2: several assemblies inside ONE simulated process (C13's "earlier
// assemblies performed in the same process"): naken_asm's main() called
// repeatedly, and assemble_code() of naken_util called repeatedly on one
// UtilContext.
#include <setjmp.h>
#include <stdio.h>
#include <string.h>

#include "sim.h"
#include "core/UtilContext.h"

int assemble_code(UtilContext &util_context, const char *cpu_name, const char *code, uint32_t &org);

jmp_buf g_exit_jmp;
int g_exit_jmp_active = 0;
extern "C" void sim_run_atexit();
int g_exit_status = 0;

int engine_inproc_asm(RBuf &rq)
{
  uint32_t nsteps = rq.u32();
  UtilContext *util = NULL;
  g_extra.u32(nsteps);

  for (uint32_t s = 0; s < nsteps && !rq.bad; s++)
  {
    int kind = rq.u8();
    if (kind == 0)
    {
      uint32_t nargs = rq.u32();
      std::vector<std::string> args;
      for (uint32_t i = 0; i < nargs; i++) { args.push_back(rq.str()); }
      std::vector<char *> argv;
      for (size_t i = 0; i < args.size(); i++) { argv.push_back((char *)args[i].c_str()); }
      argv.push_back(NULL);
      volatile int status;
      g_exit_jmp_active = 1;
      if (setjmp(g_exit_jmp) == 0)
      {
        status = naken_asm_main((int)args.size(), argv.data());
        sim_run_atexit();
      }
      else
      {
        status = g_exit_status;
      }
      g_exit_jmp_active = 0;
      fflush(NULL);
      g_extra.u8(0);
      g_extra.u32((uint32_t)status);
    }
    else
    {
      std::string cpu = rq.str();
      std::string code = rq.str();
      uint32_t org = rq.u32();
      uint32_t dump_lo = rq.u32();
      uint32_t dump_hi = rq.u32();
      if (util == NULL || kind == 2 || kind == 3)
      {
        delete util;
        util = new UtilContext();
      }
      util->set_cpu_by_name(cpu.c_str());
      if (kind == 3 && dump_lo <= dump_hi && dump_hi - dump_lo < (1u << 20))
      {
        // reference run over a pre-filled image: what the assembly does not write stays 0xff
        for (uint32_t a = dump_lo; ; a++)
        {
          util->memory.write8(a, 0xff);
          if (a == dump_hi) { break; }
        }
      }
      int status = assemble_code(*util, cpu.c_str(), code.c_str(), org);
      g_extra.u8(1);
      g_extra.u32((uint32_t)status);
      g_extra.u32(org);
      g_extra.u32(util->memory.low_address);
      g_extra.u32(util->memory.high_address);
      uint32_t lo = dump_lo, hi = dump_hi;
      if (dump_lo > dump_hi) { lo = util->memory.low_address; hi = util->memory.high_address; }
      std::string bytes;
      if (status == 0 && lo <= hi && hi - lo < (1u << 20))
      {
        for (uint32_t a = lo; ; a++)
        {
          bytes.push_back((char)util->memory.read8(a));
          if (a == hi) { break; }
        }
      }
      g_extra.u32(lo);
      g_extra.str(bytes);
    }
  }
  fflush(stdout);
  delete util;
  return 0;
}
