"""Reference decoders for the object-file formats, written from the public
specifications (Intel HEX, Motorola S-record, ELF TIS 1.2, UF2 README, WDC
binary object).  They share no code with /repo and are the oracle side of
C03/C13: decode(file bytes) -> ({byte address: byte}, meta, [problems])."""
import struct


def decode_ihex(data):
    mem = {}
    problems = []
    meta = {"records": 0, "eof": False, "entry": None}
    upper = 0
    seg = 0
    text = data.decode("latin-1")
    for ln, line in enumerate(text.replace("\r", "").split("\n")):
        if not line:
            continue
        if meta["eof"]:
            problems.append("record after EOF record (line %d)" % (ln + 1))
            break
        if line[0] != ":":
            problems.append("line %d does not start with ':'" % (ln + 1))
            continue
        try:
            raw = bytes.fromhex(line[1:])
        except ValueError:
            problems.append("line %d: non-hex characters" % (ln + 1))
            continue
        if len(raw) < 5:
            problems.append("line %d: short record" % (ln + 1))
            continue
        count, addr, typ = raw[0], (raw[1] << 8) | raw[2], raw[3]
        if len(raw) != count + 5:
            problems.append("line %d: byte count %d does not match record length %d" % (ln + 1, count, len(raw) - 5))
            continue
        if sum(raw) & 0xff:
            problems.append("line %d: bad checksum" % (ln + 1))
        payload = raw[4:4 + count]
        meta["records"] += 1
        if typ == 0:
            for i, b in enumerate(payload):
                # data wraps inside the 64 KiB window of a linear-address record (spec), flagged as a problem
                a = ((upper << 16) + seg * 16 + ((addr + i) & 0xffff)) & 0xffffffff
                if addr + i > 0xffff:
                    problems.append("line %d: data record crosses a 64 KiB boundary" % (ln + 1))
                if a in mem:
                    problems.append("address 0x%x defined twice" % a)
                mem[a] = b
        elif typ == 1:
            meta["eof"] = True
            if count != 0:
                problems.append("EOF record with data")
        elif typ == 2:
            if count != 2:
                problems.append("type 02 length")
            else:
                seg = (payload[0] << 8) | payload[1]
                upper = 0
        elif typ == 4:
            if count != 2:
                problems.append("type 04 length")
            else:
                upper = (payload[0] << 8) | payload[1]
                seg = 0
        elif typ == 3 or typ == 5:
            if count == 4:
                meta["entry"] = struct.unpack(">I", payload)[0]
        else:
            problems.append("line %d: unknown record type %d" % (ln + 1, typ))
    if not meta["eof"]:
        problems.append("no EOF record")
    return mem, meta, problems


def decode_srec(data):
    mem = {}
    problems = []
    meta = {"records": 0, "entry": None, "header": None, "types": set(), "terminated": False}
    text = data.decode("latin-1")
    for ln, line in enumerate(text.replace("\r", "").split("\n")):
        if not line:
            continue
        if line[0] != "S" or len(line) < 4 or line[1] not in "0123456789":
            problems.append("line %d: not an S-record" % (ln + 1))
            continue
        typ = int(line[1])
        try:
            raw = bytes.fromhex(line[2:])
        except ValueError:
            problems.append("line %d: non-hex characters" % (ln + 1))
            continue
        count = raw[0]
        if len(raw) != count + 1:
            problems.append("line %d: count %d does not match record length %d" % (ln + 1, count, len(raw) - 1))
            continue
        if (sum(raw) & 0xff) != 0xff:
            problems.append("line %d (S%d): bad checksum" % (ln + 1, typ))
        alen = {0: 2, 1: 2, 2: 3, 3: 4, 5: 2, 6: 3, 7: 4, 8: 3, 9: 2}.get(typ)
        if alen is None:
            problems.append("line %d: reserved record type S%d" % (ln + 1, typ))
            continue
        if count < alen + 1:
            problems.append("line %d: count too small" % (ln + 1))
            continue
        addr = int.from_bytes(raw[1:1 + alen], "big")
        payload = raw[1 + alen:-1]
        meta["records"] += 1
        meta["types"].add(typ)
        if typ == 0:
            meta["header"] = payload
        elif typ in (1, 2, 3):
            if meta["terminated"]:
                problems.append("data record after termination record")
            for i, b in enumerate(payload):
                a = addr + i
                if a >= 1 << (8 * alen):
                    problems.append("line %d: data runs past the S%d address space" % (ln + 1, typ))
                if a in mem:
                    problems.append("address 0x%x defined twice" % a)
                mem[a] = b
        elif typ in (7, 8, 9):
            meta["entry"] = addr
            meta["terminated"] = True
    return mem, meta, problems


def decode_wdc(data):
    mem = {}
    problems = []
    meta = {"blocks": 0}
    if not data or data[0:1] != b"Z":
        return mem, meta, ["missing 'Z' signature"]
    p = 1
    while p < len(data):
        if p + 6 > len(data):
            problems.append("truncated block header at offset %d" % p)
            break
        addr = data[p] | (data[p + 1] << 8) | (data[p + 2] << 16)
        ln = data[p + 3] | (data[p + 4] << 8) | (data[p + 5] << 16)
        p += 6
        if ln == 0:
            # a zero-length block terminates the file in WDC's format description
            meta["terminator"] = True
            if p != len(data):
                problems.append("bytes after terminator block")
            break
        if p + ln > len(data):
            problems.append("block at 0x%x: length %d runs past end of file" % (addr, ln))
            ln = len(data) - p
        for i in range(ln):
            a = addr + i
            if a in mem:
                problems.append("address 0x%x defined twice" % a)
            mem[a] = data[p + i]
        p += ln
        meta["blocks"] += 1
    return mem, meta, problems


UF2_MAGIC0, UF2_MAGIC1, UF2_MAGIC2 = 0x0A324655, 0x9E5D5157, 0x0AB16F30


def decode_uf2(data):
    """Blocks are grouped by familyID (a boot loader ignores blocks of other
    families); returns the image of the family with most blocks, with the
    other groups in meta["other_families"]."""
    problems = []
    fam = {}
    meta = {"blocks": 0}
    if len(data) % 512:
        problems.append("file length %d is not a multiple of 512" % len(data))
    for off in range(0, len(data) - len(data) % 512, 512):
        m0, m1, flags, addr, size, blk, nblk, family = struct.unpack_from("<8I", data, off)
        m2 = struct.unpack_from("<I", data, off + 508)[0]
        if m0 != UF2_MAGIC0 or m1 != UF2_MAGIC1 or m2 != UF2_MAGIC2:
            problems.append("block at offset %d: bad magic" % off)
            continue
        if size > 476:
            problems.append("block %d: payloadSize %d > 476" % (blk, size))
            continue
        if blk >= nblk:
            problems.append("block %d: blockNo >= numBlocks %d" % (blk, nblk))
        if flags & 1:
            continue        # not main flash
        key = family if flags & 0x2000 else None
        g = fam.setdefault(key, {"mem": {}, "blocks": [], "nblk": set()})
        g["blocks"].append(blk)
        g["nblk"].add(nblk)
        for i in range(size):
            a = (addr + i) & 0xffffffff
            if a in g["mem"]:
                problems.append("address 0x%x defined twice" % a)
            g["mem"][a] = data[off + 32 + i]
        meta["blocks"] += 1
    if not fam:
        return {}, meta, problems + ["no valid block"]
    order = sorted(fam, key=lambda k: (-len(fam[k]["blocks"]), 0 if k is None else k))
    main = order[0]
    if len(order) > 1 and len(fam[order[0]]["blocks"]) == len(fam[order[1]]["blocks"]):
        # tie: the 0xef filler block the Pico SDK puts at 0x10ffff00 is not the program
        for k in order[:2]:
            vals = set(fam[k]["mem"].values())
            if not (min(fam[k]["mem"]) == 0x10ffff00 and vals <= {0xef, 0x00}):
                main = k
                break
    g = fam[main]
    if len(order) == 1 and g["mem"] and min(g["mem"]) == 0x10ffff00 and set(g["mem"].values()) <= {0xef, 0x00}:
        # an empty program: the file holds nothing but the filler block
        g = {"mem": {}, "blocks": g["blocks"], "nblk": g["nblk"]}
    meta["family"] = main
    meta["other_families"] = [k for k in fam if k != main]
    if len(g["nblk"]) != 1:
        problems.append("numBlocks differs between blocks of one family")
    elif sorted(g["blocks"]) != list(range(list(g["nblk"])[0])):
        problems.append("blockNo sequence %s does not cover 0..numBlocks-1 (%s)" % (sorted(g["blocks"])[:5], list(g["nblk"])[0]))
    return g["mem"], meta, problems


def decode_elf(data):
    """ELF32/ELF64, either byte order: SHF_ALLOC PROGBITS sections at sh_addr;
    exported symbols from .symtab; e_entry."""
    mem = {}
    problems = []
    meta = {"entry": None, "symbols": {}, "sections": []}
    if len(data) < 52 or data[:4] != b"\x7fELF":
        return mem, meta, ["not an ELF file"]
    is64 = data[4] == 2
    en = "<" if data[5] == 1 else ">"
    if data[4] not in (1, 2) or data[5] not in (1, 2):
        problems.append("bad EI_CLASS/EI_DATA")
    if is64:
        e_entry, e_phoff, e_shoff = struct.unpack_from(en + "QQQ", data, 24)
        e_flags, e_ehsize, e_phentsize, e_phnum, e_shentsize, e_shnum, e_shstrndx = struct.unpack_from(en + "IHHHHHH", data, 48)
    else:
        e_entry, e_phoff, e_shoff = struct.unpack_from(en + "III", data, 24)
        e_flags, e_ehsize, e_phentsize, e_phnum, e_shentsize, e_shnum, e_shstrndx = struct.unpack_from(en + "IHHHHHH", data, 36)
    meta["entry"] = e_entry
    if e_ehsize != (64 if is64 else 52):
        problems.append("e_ehsize %d" % e_ehsize)
    want = 64 if is64 else 40
    if e_shentsize != want:
        problems.append("e_shentsize %d" % e_shentsize)
        return mem, meta, problems
    if e_shoff + e_shnum * e_shentsize > len(data):
        problems.append("section header table runs past end of file")
        return mem, meta, problems
    secs = []
    for i in range(e_shnum):
        off = e_shoff + i * e_shentsize
        if is64:
            name, typ, flags, addr, offset, size, link, info, align, entsize = struct.unpack_from(en + "IIQQQQIIQQ", data, off)
        else:
            name, typ, flags, addr, offset, size, link, info, align, entsize = struct.unpack_from(en + "IIIIIIIIII", data, off)
        secs.append(dict(name=name, type=typ, flags=flags, addr=addr, offset=offset, size=size, link=link, info=info, entsize=entsize))
    if e_shstrndx >= len(secs):
        problems.append("e_shstrndx out of range")
        shstr = b""
    else:
        s = secs[e_shstrndx]
        shstr = data[s["offset"]:s["offset"] + s["size"]]

    def cstr(tab, off):
        end = tab.find(b"\0", off)
        return tab[off:end if end >= 0 else len(tab)].decode("latin-1")

    for s in secs:
        s["sname"] = cstr(shstr, s["name"]) if s["name"] < len(shstr) else "?"
    meta["sections"] = [(s["sname"], s["addr"], s["size"]) for s in secs]
    for s in secs:
        if s["type"] == 1 and (s["flags"] & 2):        # SHT_PROGBITS + SHF_ALLOC
            if s["offset"] + s["size"] > len(data):
                problems.append("section %s runs past end of file" % s["sname"])
                continue
            for i in range(s["size"]):
                a = s["addr"] + i
                if a in mem:
                    problems.append("address 0x%x defined twice" % a)
                mem[a] = data[s["offset"] + i]
    # program headers: what a loader that maps PT_LOAD segments would see must agree with the sections
    want_ph = 56 if is64 else 32
    if e_phnum:
        if e_phentsize != want_ph:
            problems.append("e_phentsize %d" % e_phentsize)
        elif e_phoff + e_phnum * e_phentsize > len(data):
            problems.append("program header table runs past end of file")
        else:
            for i in range(e_phnum):
                off = e_phoff + i * e_phentsize
                if is64:
                    p_type, p_flags, p_offset, p_vaddr, p_paddr, p_filesz, p_memsz, p_align = struct.unpack_from(en + "IIQQQQQQ", data, off)
                else:
                    p_type, p_offset, p_vaddr, p_paddr, p_filesz, p_memsz, p_flags, p_align = struct.unpack_from(en + "IIIIIIII", data, off)
                if p_type != 1:
                    continue
                if p_offset + p_filesz > len(data):
                    problems.append("PT_LOAD segment runs past end of file")
                    continue
                bad = 0
                for k in range(p_filesz):
                    a = p_vaddr + k
                    if a in mem and mem[a] != data[p_offset + k]:
                        bad += 1
                if bad:
                    problems.append("PT_LOAD segment disagrees with the sections at %d addresses" % bad)
    for s in secs:
        if s["type"] == 2:                              # SHT_SYMTAB
            if s["link"] >= len(secs):
                problems.append("symtab sh_link out of range")
                continue
            st = secs[s["link"]]
            strtab = data[st["offset"]:st["offset"] + st["size"]]
            esz = 24 if is64 else 16
            if s["entsize"] not in (0, esz):
                problems.append("symtab entsize %d" % s["entsize"])
            for off in range(s["offset"], s["offset"] + s["size"] - esz + 1, esz):
                if is64:
                    nm, info, other, shndx, value, size = struct.unpack_from(en + "IBBHQQ", data, off)
                else:
                    nm, value, size, info, other, shndx = struct.unpack_from(en + "IIIBBH", data, off)
                if nm and nm < len(strtab):
                    meta["symbols"][cstr(strtab, nm)] = (value, info, shndx)
    return mem, meta, problems


def decode_bin(data, lo):
    return {lo + i: b for i, b in enumerate(data)}, {}, []



def decode_amiga(data, lo):
    """AmigaDOS load file (hunk format): HUNK_HEADER (0x3f3), no resident libraries, size table, then for each hunk a
    HUNK_CODE/DATA (0x3e9/0x3ea) with its length in longwords and that many bytes, closed by HUNK_END (0x3f2).  Hunks carry
    no address: the bytes are laid out from `lo` upwards, as for bin."""
    import struct
    mem, problems = {}, []
    def u32(off):
        if off + 4 > len(data):
            raise ValueError("file ends inside a longword at offset %d" % off)
        return struct.unpack(">I", data[off:off + 4])[0]
    try:
        if u32(0) != 0x3f3:
            return mem, {}, ["no HUNK_HEADER magic"]
        off = 4
        while True:                      # resident library names
            n = u32(off); off += 4
            if n == 0:
                break
            off += 4 * n
        table = u32(off); first = u32(off + 4); last = u32(off + 8); off += 12
        if last - first + 1 != table:
            problems.append("table size %d but hunks %d..%d" % (table, first, last))
        sizes = [u32(off + 4 * i) for i in range(last - first + 1)]
        off += 4 * len(sizes)
        at = lo
        for i, size in enumerate(sizes):
            t = u32(off) & 0x3fffffff; off += 4
            if t not in (0x3e9, 0x3ea):
                problems.append("hunk %d has type 0x%x" % (i, t))
                break
            n = u32(off); off += 4
            if n != (size & 0x3fffffff):
                problems.append("hunk %d: %d longwords in the hunk, %d in the header table" % (i, n, size))
            if off + 4 * n > len(data):
                problems.append("hunk %d: %d longwords announced, %d bytes left in the file" % (i, n, len(data) - off))
                n = (len(data) - off) // 4
            for j in range(4 * n):
                mem[(at + j) & 0xffffffff] = data[off + j]
            at += 4 * n
            off += 4 * n
            if u32(off) != 0x3f2:
                problems.append("hunk %d is not followed by HUNK_END but by 0x%x" % (i, u32(off)))
                break
            off += 4
        if off != len(data) and not problems:
            problems.append("%d bytes after the last HUNK_END" % (len(data) - off))
    except ValueError as e:
        problems.append(str(e))
    return mem, {}, problems


def decode_macho(data, lo):
    """Mach-O object file (mach-o/loader.h): mach_header[_64], load commands LC_SEGMENT[_64] with one section, LC_SYMTAB with
    nlist[_64] entries and a string table.  The object is relocatable (segment address 0): the section's bytes are laid out
    from `lo` upwards, as for bin."""
    import struct
    mem, problems, symbols = {}, [], {}
    if len(data) < 28:
        return mem, {"symbols": symbols}, ["shorter than a mach_header"]
    magic_be = struct.unpack(">I", data[:4])[0]
    magic_le = struct.unpack("<I", data[:4])[0]
    if magic_be in (0xfeedface, 0xfeedfacf):
        e, magic = ">", magic_be
    elif magic_le in (0xfeedface, 0xfeedfacf):
        e, magic = "<", magic_le
    else:
        return mem, {"symbols": symbols}, ["no Mach-O magic"]
    is64 = magic == 0xfeedfacf
    cputype, cpusub, filetype, ncmds, sizeofcmds, flags = struct.unpack(e + "6I", data[4:28])
    off = 32 if is64 else 28
    start = off
    sect = None
    symtab = None
    for i in range(ncmds):
        if off + 8 > len(data):
            problems.append("load command %d starts past the end of the file" % i)
            break
        cmd, cmdsize = struct.unpack(e + "2I", data[off:off + 8])
        if cmdsize < 8 or off + cmdsize > len(data):
            problems.append("load command %d has size %d at offset %d of %d" % (i, cmdsize, off, len(data)))
            break
        body = data[off:off + cmdsize]
        if cmd == 0x1 and not is64:
            vmaddr, vmsize, fileoff, filesize, maxprot, initprot, nsects, sflags = struct.unpack(e + "8I", body[24:56])
            if nsects >= 1:
                addr, size, soff = struct.unpack(e + "3I", body[56 + 32:56 + 44])
                sect = (addr, size, soff, fileoff, filesize)
            if 56 + 68 * nsects != cmdsize:
                problems.append("LC_SEGMENT of %d bytes for %d sections" % (cmdsize, nsects))
        elif cmd == 0x19 and is64:
            vmaddr, vmsize, fileoff, filesize = struct.unpack(e + "4Q", body[24:56])
            maxprot, initprot, nsects, sflags = struct.unpack(e + "4I", body[56:72])
            if nsects >= 1:
                addr, size = struct.unpack(e + "2Q", body[72 + 32:72 + 48])
                soff = struct.unpack(e + "I", body[72 + 48:72 + 52])[0]
                sect = (addr, size, soff, fileoff, filesize)
            if 72 + 80 * nsects != cmdsize:
                problems.append("LC_SEGMENT_64 of %d bytes for %d sections" % (cmdsize, nsects))
        elif cmd == 0x2:
            symtab = struct.unpack(e + "4I", body[8:24])
        off += cmdsize
    if not problems and off - start != sizeofcmds:
        problems.append("sizeofcmds is %d, the load commands take %d bytes" % (sizeofcmds, off - start))
    if sect is None:
        problems.append("no segment with a section")
    else:
        addr, size, soff, fileoff, filesize = sect
        if soff != fileoff or size != filesize:
            problems.append("section at %d+%d, segment at %d+%d" % (soff, size, fileoff, filesize))
        if soff + size > len(data):
            problems.append("section of %d bytes at offset %d in a file of %d" % (size, soff, len(data)))
            size = max(0, len(data) - soff)
        for j in range(size):
            mem[(lo + j) & 0xffffffff] = data[soff + j]
    if symtab is not None:
        symoff, nsyms, stroff, strsize = symtab
        nl = 16 if is64 else 12
        if symoff + nsyms * nl > len(data) or stroff + strsize > len(data):
            problems.append("symbol or string table past the end of the file")
        else:
            for k in range(nsyms):
                ent = data[symoff + k * nl:symoff + (k + 1) * nl]
                strx, ntype, nsect, ndesc = struct.unpack(e + "IBBH", ent[:8])
                value = struct.unpack(e + ("Q" if is64 else "I"), ent[8:])[0]
                if strx >= strsize:
                    problems.append("symbol %d names offset %d in a string table of %d" % (k, strx, strsize))
                    continue
                end = data.find(b"\0", stroff + strx, stroff + strsize)
                if end < 0:
                    problems.append("symbol %d has an unterminated name" % k)
                    continue
                symbols[data[stroff + strx:end].decode("latin-1")] = (value, ntype)
    return mem, {"symbols": symbols}, problems

DECODERS = {"hex": decode_ihex, "srec": decode_srec, "wdc": decode_wdc, "uf2": decode_uf2, "elf": decode_elf}
