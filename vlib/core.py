"""Kernel shared by every engine: PRNG, wire format, executor client, outcomes.

Only the planner draws from the PRNG.  The executor (sim/executor.cpp) draws
nothing: a request fully determines the simulated process lifetime.
"""
import hashlib
import json
import os
import struct
import subprocess
import errno as _errno

VERIF = os.path.dirname(os.path.dirname(os.path.abspath(__file__)))
REPO = os.environ.get("VERIF_REPO", "/repo")
CACHE = os.environ.get("VERIF_CACHE", os.path.join(VERIF, ".cache"))

M64 = (1 << 64) - 1


def splitmix64(x):
    x = (x + 0x9E3779B97F4A7C15) & M64
    z = x
    z = ((z ^ (z >> 30)) * 0xBF58476D1CE4E5B9) & M64
    z = ((z ^ (z >> 27)) * 0x94D049BB133111EB) & M64
    return z ^ (z >> 31)


def stable_hash(s):
    if isinstance(s, str):
        s = s.encode()
    return int.from_bytes(hashlib.sha256(s).digest()[:8], "little")


class Rng:
    """xoshiro256** seeded through splitmix64; own implementation so that no
    run depends on the algorithm behind Python's `random`."""

    def __init__(self, seed):
        s = seed & M64
        self.s = []
        for _ in range(4):
            s = (s + 0x9E3779B97F4A7C15) & M64
            z = s
            z = ((z ^ (z >> 30)) * 0xBF58476D1CE4E5B9) & M64
            z = ((z ^ (z >> 27)) * 0x94D049BB133111EB) & M64
            self.s.append(z ^ (z >> 31))

    @staticmethod
    def for_run(seed, prop, index):
        return Rng(splitmix64((seed & M64) ^ stable_hash(prop) ^ ((index * 0x9E3779B97F4A7C15) & M64)))

    def u64(self):
        s = self.s
        r = (s[1] * 5) & M64
        r = ((r << 7) | (r >> 57)) & M64
        r = (r * 9) & M64
        t = (s[1] << 17) & M64
        s[2] ^= s[0]
        s[3] ^= s[1]
        s[1] ^= s[2]
        s[0] ^= s[3]
        s[2] ^= t
        s[3] = ((s[3] << 45) | (s[3] >> 19)) & M64
        return r

    def below(self, n):
        if n <= 0:
            return 0
        return self.u64() % n

    def range(self, lo, hi):
        """inclusive"""
        return lo + self.below(hi - lo + 1)

    def chance(self, num, den):
        return self.below(den) < num

    def pick(self, seq):
        return seq[self.below(len(seq))]

    def weighted(self, pairs):
        total = sum(w for _, w in pairs)
        k = self.below(total)
        for v, w in pairs:
            if k < w:
                return v
            k -= w
        return pairs[-1][0]

    def subset(self, seq, num=1, den=2):
        return [x for x in seq if self.chance(num, den)]

    def shuffle(self, lst):
        for i in range(len(lst) - 1, 0, -1):
            j = self.below(i + 1)
            lst[i], lst[j] = lst[j], lst[i]
        return lst

    def bytes(self, n):
        out = bytearray()
        while len(out) < n:
            out += struct.pack("<Q", self.u64())
        return bytes(out[:n])


# ------------------------------------------------------------------ wire

class W:
    def __init__(self):
        self.b = bytearray()

    def u8(self, v):
        self.b.append(v & 0xFF)

    def u32(self, v):
        self.b += struct.pack("<I", v & 0xFFFFFFFF)

    def u64(self, v):
        self.b += struct.pack("<Q", v & M64)

    def bytes(self, d):
        if isinstance(d, str):
            d = d.encode("latin-1")
        self.u32(len(d))
        self.b += d


class R:
    def __init__(self, b):
        self.b = b
        self.p = 0

    def u8(self):
        v = self.b[self.p]
        self.p += 1
        return v

    def u32(self):
        v = struct.unpack_from("<I", self.b, self.p)[0]
        self.p += 4
        return v

    def u64(self):
        v = struct.unpack_from("<Q", self.b, self.p)[0]
        self.p += 8
        return v

    def bytes(self):
        n = self.u32()
        v = bytes(self.b[self.p:self.p + n])
        self.p += n
        return v

    def left(self):
        return len(self.b) - self.p


HOW_EXIT, HOW_SIGNAL, HOW_TIMEOUT, HOW_EVENTS, HOW_QUIT_IGNORED, HOW_SIGINT_DFL, HOW_SANITIZER, HOW_HARNESS = range(8)
HOW_NAMES = ["exit", "signal", "timeout", "event-ceiling", "quit-ignored", "sigint-default", "sanitizer", "harness"]

F_OPEN_FAIL, F_READ_EOF, F_READ_EIO, F_WRITE_FAIL, F_VANISH, F_UNLINK_FAIL, F_NOSEEK = 1, 2, 3, 4, 5, 6, 7
FAULT_NAMES = {1: "open_fail", 2: "read_eof", 3: "read_eio", 4: "write_fail", 5: "vanish", 6: "unlink_fail", 7: "noseek"}
FAULT_IDS = {v: k for k, v in FAULT_NAMES.items()}

COUNTERS = ["fopen", "fopen_fail_natural", "f_open_fail", "f_read_eof", "f_read_eio",
            "f_write_fail", "f_vanish", "f_emfile", "f_unlink_fail", "unlink_hit", "unlink_miss",
            "sigint_handled", "sigint_dfl", "sigint_in_run", "read_chunked", "time_calls",
            "exit_calls", "write_after_fail", "readline", "quit_ignored", "seek",
            "open_dir", "stale_truncated"]
C_ENGINE0 = len(COUNTERS)

SEAMS = ["?", "fopen", "read", "write", "seek", "close", "unlink", "time", "usleep",
         "signal", "exit", "readline", "stdout", "sigint"]

ERRNO = {"ENOENT": _errno.ENOENT, "EACCES": _errno.EACCES, "EMFILE": _errno.EMFILE,
         "EIO": _errno.EIO, "ENOSPC": _errno.ENOSPC, "EISDIR": _errno.EISDIR,
         "EDQUOT": _errno.EDQUOT, "EROFS": _errno.EROFS}

MODE_ASM, MODE_UTIL, MODE_INPROC, MODE_UTILAPI, MODE_C14, MODE_C15 = range(6)


class Outcome:
    __slots__ = ("done", "how", "status", "killed", "signaled", "wcode", "event_hash",
                 "event_count", "usleeps", "stdout_lines", "sim_usec", "console_pos",
                 "stdout_truncated", "wall_us", "cpu_us", "counters", "ring", "stdout",
                 "stderr", "delta", "fault_fired", "extra")

    def kind(self):
        """Classify how the simulated process ended."""
        if self.stderr and (b"Sanitizer" in self.stderr or b"runtime error:" in self.stderr):
            return "sanitizer"
        if self.done:
            return HOW_NAMES[self.how]
        if self.killed:
            return "timeout"
        if self.signaled:
            return "signal"
        if self.wcode == 77:
            return "sanitizer"
        return "harness"

    def exit_status(self):
        return self.status & 0xFF

    def text(self):
        return self.stdout.decode("latin-1")

    def digest(self):
        h = hashlib.sha256()
        h.update(self.kind().encode())
        if self.kind() == "timeout":
            # killed by the watchdog at an arbitrary instant: nothing after the kind is reproducible
            return h.hexdigest()[:16]
        h.update(struct.pack("<iQ", self.status if self.done else -1, self.event_hash))
        h.update(self.stdout)
        for p, k, d in self.delta:
            h.update(p.encode("latin-1") + bytes([k]) + d)
        h.update(self.extra)
        return h.hexdigest()[:16]


def build_request(mode, argv=(), files=None, faults=(), console=(), sigs=(), env=None, extra=b"",
                  cpu_ms=10000, wall_ms=60000):
    env = env or {}
    w = W()
    w.u32(cpu_ms)
    w.u32(wall_ms)
    w.u8(mode)
    w.u32(len(argv))
    for a in argv:
        w.bytes(a)
    w.u64(env.get("clock0", 1291231234))
    w.u8(env.get("heap_fill", 0))
    w.u64(env.get("heap_seed", 1))
    w.u8(env.get("stack_fill", 0))
    w.u64(env.get("stack_seed", 1))
    w.u64(env.get("chunk_seed", 0))
    w.u32(env.get("fd_limit", 0))
    w.u64(env.get("event_ceiling", 0))
    w.u64(env.get("stdout_ceiling", 0))
    w.u8(env.get("pass1_xor", 0))
    w.bytes(env.get("cwd", "/sim/w"))
    files = files or {}
    w.u32(len(files))
    for path in sorted(files):
        data = files[path]
        w.bytes(path)
        if data is None:
            w.u8(1)
            w.bytes(b"")
        else:
            w.u8(0)
            w.bytes(data)
    w.u32(len(faults))
    for f in faults:
        w.u8(FAULT_IDS[f["kind"]])
        w.bytes(f.get("path", ""))
        w.u32(f.get("nth", 0))
        w.u64(f.get("offset", 0))
        w.u32(ERRNO[f.get("errno", "EIO")])
    w.u32(len(console))
    for line in console:
        w.bytes(line)
    w.u32(len(sigs))
    for s in sigs:
        w.u8({"usleep": 0, "event": 1, "stdout": 2, "during": 3}[s["trigger"]])
        w.u64(s["k"])
        w.u32(s.get("after", 0))
        w.u32(s.get("repeat", 0))
    w.b += extra
    return bytes(w.b)


def parse_response(b):
    r = R(b)
    o = Outcome()
    o.done = r.u8() == 1
    o.how = r.u32()
    o.status = struct.unpack("<i", struct.pack("<I", r.u32()))[0]
    o.killed = r.u8() == 1
    o.signaled = r.u8() == 1
    o.wcode = r.u32()
    o.event_hash = r.u64()
    o.event_count = r.u64()
    o.usleeps = r.u64()
    o.stdout_lines = r.u64()
    o.sim_usec = r.u64()
    o.console_pos = r.u32()
    o.stdout_truncated = r.u32()
    o.wall_us = r.u32()
    o.cpu_us = r.u32()
    n = r.u32()
    vals = [r.u64() for _ in range(n)]
    o.counters = vals
    n = r.u32()
    o.ring = [(r.u32(), r.u64()) for _ in range(n)]
    o.stdout = r.bytes()
    o.stderr = r.bytes()
    res = r.bytes()
    o.delta = []
    o.fault_fired = []
    o.extra = b""
    if res:
        rr = R(res)
        nf = rr.u32()
        for _ in range(nf):
            p = rr.bytes().decode("latin-1")
            k = rr.u8()
            d = rr.bytes()
            o.delta.append((p, k, d))
        nfl = rr.u32()
        o.fault_fired = [rr.u32() for _ in range(nfl)]
        o.extra = rr.bytes()
    return o


class Executor:
    """One long-lived executor process; every call() is one forked child."""

    def __init__(self, variant="san"):
        self.path = os.path.join(CACHE, variant, "executor")
        self.p = None
        self.restarts = 0

    def start(self):
        env = dict(os.environ)
        env["TZ"] = "UTC"
        env.pop("ASAN_OPTIONS", None)
        env.pop("UBSAN_OPTIONS", None)
        self.p = subprocess.Popen([self.path], stdin=subprocess.PIPE, stdout=subprocess.PIPE,
                                  stderr=subprocess.DEVNULL, env=env, bufsize=0)

    def call(self, req):
        for attempt in range(3):
            if self.p is None or self.p.poll() is not None:
                self.start()
            try:
                self.p.stdin.write(struct.pack("<I", len(req)) + req)
                hdr = self._read(4)
                n = struct.unpack("<I", hdr)[0]
                return parse_response(self._read(n))
            except (BrokenPipeError, EOFError):
                self.restarts += 1
                self.close()
        raise RuntimeError("executor keeps dying")

    def _read(self, n):
        out = bytearray()
        while len(out) < n:
            c = self.p.stdout.read(n - len(out))
            if not c:
                raise EOFError()
            out += c
        return bytes(out)

    def close(self):
        if self.p is not None:
            try:
                self.p.stdin.close()
            except Exception:
                pass
            try:
                self.p.wait(timeout=2)     # EOF on stdin: the executor removes its scratch directory and exits
            except Exception:
                try:
                    self.p.kill()
                except Exception:
                    pass
                self.p.wait()
            self.p = None


def apply_delta(files, outcome):
    """Durable state of the workspace after a process lifetime."""
    for p, k, d in outcome.delta:
        if k == 1:
            files.pop(p, None)
        else:
            files[p] = d
    return files


def counters_dict(o):
    return {COUNTERS[i]: o.counters[i] for i in range(len(COUNTERS)) if o.counters[i]}


def canon(obj):
    return json.dumps(obj, sort_keys=True, separators=(",", ":"), default=lambda b: b.hex() if isinstance(b, (bytes, bytearray)) else str(b))


def plan_hash(obj):
    return hashlib.sha256(canon(obj).encode()).hexdigest()[:16]


# ------------------------------------------------------------------ crash classification
import re as _re

_FRAME = _re.compile(r"#\d+ 0x[0-9a-f]+ in (.+?) (/\S+?):(\d+)")
_FRAME_NOFILE = _re.compile(r"#\d+ 0x[0-9a-f]+ in (\S+)")


def first_repo_function(text, repo=REPO):
    """Function name of the innermost stack frame that lies inside /repo."""
    for m in _FRAME.finditer(text):
        fn, path = m.group(1), m.group(2)
        if path.startswith(repo + "/") or path.startswith("/repo/"):
            fn = _re.sub(r"\(.*$", "", fn).strip()
            return fn, os.path.relpath(path, repo if path.startswith(repo + "/") else "/repo")
    return None, None


def sanitizer_kind(text):
    m = _re.search(r"ERROR: AddressSanitizer: ([A-Za-z0-9_-]+)", text)
    if m:
        k = m.group(1)
        if k == "SEGV":
            return "asan:SEGV"
        if k == "FPE":
            return "asan:FPE"
        if k == "stack-overflow":
            return "asan:stack-overflow"
        return "asan:" + k
    m = _re.search(r"runtime error: (.*)", text)
    if m:
        msg = m.group(1)
        msg = _re.sub(r"0x[0-9a-f]+", "N", msg)
        msg = _re.sub(r"-?\d+", "N", msg)
        msg = _re.sub(r"'[^']*'", "T", msg)
        msg = msg.strip().replace(" ", "-")[:60]
        return "ubsan:" + msg
    if "AddressSanitizer" in text:
        m = _re.search(r"AddressSanitizer: ([^\n]{0,60})", text)
        return "asan:" + (_re.sub(r"[^A-Za-z-]+", "-", m.group(1))[:40] if m else "other")
    return None


def crash_key(o, tag=""):
    """None if the simulated process ended normally (by return or exit);
    otherwise a coarse violation key: kind + innermost /repo function."""
    kind = o.kind()
    if kind == "exit":
        return None
    if kind == "sanitizer":
        text = o.stderr.decode("latin-1")
        sk = sanitizer_kind(text) or "sanitizer:unknown"
        fn, path = first_repo_function(text)
        if sk == "asan:stack-overflow":
            # the frame where the guard page is hit depends on stack depth; key on the
            # recursion cycle instead: smallest name among /repo functions seen twice
            seen = {}
            for m in _FRAME.finditer(text):
                if m.group(2).startswith(REPO + "/") or m.group(2).startswith("/repo/"):
                    f = _re.sub(r"\(.*$", "", m.group(1)).strip()
                    seen[f] = seen.get(f, 0) + 1
            rec = sorted(f for f, n in seen.items() if n >= 2)
            fn = rec[0] if rec else (fn or "recursion")
        return "%s:%s" % (sk, fn or tag or "?")
    if kind == "signal":
        return "signal:%d:%s" % (o.wcode, tag)
    if kind == "timeout":
        return "hang:%s" % tag
    if kind == "event-ceiling":
        return "events:%s" % tag
    if kind == "quit-ignored":
        return "quit-ignored:%s" % tag
    if kind == "sigint-default":
        return None
    return "harness:%s" % kind
