"""Controller: build, worker pool, seeded search, gating, minimisation,
known-finding matching, evidence."""
import argparse
import json
import multiprocessing as mp
import os
import queue
import subprocess
import sys
import time
import traceback

from .core import *

DEFAULT_SEEDS = {"quick": 20261004, "thorough": 77001}


class RunResult:
    def __init__(self):
        self.violations = []     # list of (key, detail-dict)
        self.ops = 0             # executed operations (process lifetimes / API calls / steps)
        self.hashes = []         # event hashes of this run's operations
        self.nontrivial = False  # at least one fault fired or two operations shared state
        self.faults = {}         # fault kind -> times it actually fired
        self.probes = {}         # named reach probes
        self.sim_usec = 0
        self.unparsed = 0
        self.digest = ""         # determinism digest of the whole run
        self.max_cpu_us = 0

    def viol(self, key, **detail):
        self.violations.append((key, detail))

    def probe(self, name, n=1):
        if n:
            self.probes[name] = self.probes.get(name, 0) + n

    def fault(self, name, n=1):
        if n:
            self.faults[name] = self.faults.get(name, 0) + n

    def absorb(self, o):
        """Account one executor outcome."""
        self.ops += 1
        self.hashes.append(o.event_hash)
        self.sim_usec += o.sim_usec
        if not o.killed:
            self.max_cpu_us = max(self.max_cpu_us, o.cpu_us)
        c = o.counters
        for i, name in ((2, "open_fail"), (3, "read_eof"), (4, "read_eio"), (5, "write_fail"),
                        (6, "vanish"), (7, "emfile"), (8, "unlink_fail")):
            if c[i]:
                self.fault(name, c[i])
                self.nontrivial = True
        if c[11]:
            self.fault("sigint_handled", c[11])
            self.nontrivial = True
        if c[12]:
            self.fault("sigint_default", c[12])
        if c[14]:
            self.fault("chunked_reads", c[14])
        self.probe("sigint_in_run_loop", c[13])
        self.probe("unlink_hit_existing_file", c[9])
        self.probe("unlink_missed", c[10])
        self.probe("stale_output_truncated", c[22])
        self.probe("write_after_failed_write", c[17])
        self.probe("opened_directory", c[21])
        self.probe("natural_open_failure", c[1])
        self.probe("exit_called", c[16])
        self.probe("quit_ignored", c[19])
        self.probe("real_files_created_outside_simfs", c[63] if len(c) > 63 else 0)


class Engine:
    prop = "C00"
    title = ""
    rule = ""
    real_components = ["every line of /repo asm/ disasm/ table/ core/ common/ fileio/ simulate/ main/ (both main()s, compiled unchanged with -Dmain=...)",
                       "glibc stdio buffering above the cookie layer"]
    stub_components = ["file I/O below FILE* (SimFs via fopencookie)", "unlink", "time", "usleep (simulated clock)",
                       "signal/SIGINT delivery", "exit capture", "readline console", "heap/stack fill"]
    quick_budget = 60
    quick_runs = 2000
    thorough_budget = 900

    def __init__(self, tier, seed):
        self.tier = tier
        self.seed = seed

    def plan(self, rng, index):
        raise NotImplementedError

    def run(self, ex, plan):
        raise NotImplementedError

    def shrink(self, plan):
        """Yield simpler candidate plans."""
        return iter(())

    def directed(self):
        """Number of leading run indices that are directed (seed-independent)."""
        return 0

    def sample_view(self, plan):
        return trim(plan)

    def variant(self, ex, name):
        """Executor of another build variant of /repo (same harness, other build-time knobs):
        'small' = 256-byte memory pages, 1 KiB symbol pools, 4 KiB macro pools (hook H1)."""
        if name in (None, "san"):
            return ex
        if not hasattr(self, "_variants"):
            self._variants = {}
        if name not in self._variants:
            self._variants[name] = Executor(name)
        return Rejudging(self._variants[name], ex)

    def close(self):
        for e in getattr(self, "_variants", {}).values():
            e.close()
        self._variants = {}


class Rejudging:
    """Executor of a build variant whose budget overruns are judged on the build with the shipped sizes: the hook's
    256-byte pages turn every memory access into a walk over a page list thousands long, so 'too slow' in that build
    says nothing about /repo as shipped. Same request, same budget, executed again on the base executor."""
    def __init__(self, var, base):
        self.var, self.base = var, base
        self.rejudged = 0

    def call(self, req):
        o = self.var.call(req)
        if o.kind() == "timeout" and self.base is not self.var:
            self.rejudged += 1
            o = self.base.call(req)
        return o

    def __getattr__(self, name):
        return getattr(self.var, name)


def trim(obj, limit=300):
    if isinstance(obj, dict):
        return {k: trim(v, limit) for k, v in obj.items()}
    if isinstance(obj, list):
        out = [trim(v, limit) for v in obj[:40]]
        if len(obj) > 40:
            out.append("... %d more" % (len(obj) - 40))
        return out
    if isinstance(obj, (bytes, bytearray)):
        obj = obj.decode("latin-1")
    if isinstance(obj, str) and len(obj) > limit:
        return obj[:limit] + "... (%d chars)" % len(obj)
    return obj


def build(variant="san", quiet=True):
    t = time.time()
    cmd = ["make", "-s", "-f", os.path.join(VERIF, "sim", "Makefile"), "-j16", "V=" + variant, "R=" + REPO,
           "O=" + os.path.join(CACHE, variant)]
    r = subprocess.run(cmd, stdout=subprocess.PIPE, stderr=subprocess.STDOUT, text=True)
    if r.returncode != 0:
        sys.stdout.write(r.stdout[-6000:])
        print("HARNESS: build of instrumented /repo failed")
        sys.exit(2)
    return time.time() - t


def load_known():
    p = os.path.join(VERIF, "known_findings.json")
    if not os.path.exists(p):
        return []
    return json.load(open(p))


def worker_main(engine_cls, tier, seed, counter, deadline, max_runs, out_q, wid, indices=None):
    try:
        eng = engine_cls(tier, seed)
        ex = Executor()
        agg = new_agg()
        last = time.time()
        pos = 0
        while True:
            if indices is not None:
                if pos >= len(indices):
                    break
                idx = indices[pos]
                pos += 1
            else:
                if time.time() > deadline:
                    break
                with counter.get_lock():
                    idx = counter.value
                    counter.value += 1
                if max_runs and idx >= max_runs:
                    break
            rng = Rng.for_run(seed, eng.prop, idx)
            plan = eng.plan(rng, idx)
            try:
                res = eng.run(ex, plan)
            except Exception:
                agg["errors"].append("run %d: %s" % (idx, traceback.format_exc()[-1500:]))
                ex.close()
                continue
            merge(agg, idx, plan, res, eng)
            if time.time() - last > 1.0:
                out_q.put(agg)
                agg = new_agg()
                last = time.time()
        agg["restarts"] = ex.restarts
        ex.close()
        eng.close()
        out_q.put(agg)
    except Exception:
        a = new_agg()
        a["errors"].append("worker %d: %s" % (wid, traceback.format_exc()[-2000:]))
        out_q.put(a)
    out_q.put(None)


def new_agg():
    return {"runs": 0, "ops": 0, "max_cpu_us": 0, "hashes": set(), "nt_hashes": set(), "faults": {}, "probes": {},
            "sim_usec": 0, "violations": [], "samples": [], "errors": [], "unparsed": 0,
            "digests": {}, "restarts": 0, "max_index": -1}


def merge(agg, idx, plan, res, eng):
    agg["runs"] += 1
    agg["ops"] += res.ops
    agg["sim_usec"] += res.sim_usec
    agg["unparsed"] += res.unparsed
    agg["max_index"] = max(agg["max_index"], idx)
    agg["max_cpu_us"] = max(agg["max_cpu_us"], res.max_cpu_us)
    hs = set(res.hashes)
    agg["hashes"] |= hs
    if res.nontrivial:
        agg["nt_hashes"] |= hs
    for k, v in res.faults.items():
        agg["faults"][k] = agg["faults"].get(k, 0) + v
    for k, v in res.probes.items():
        agg["probes"][k] = agg["probes"].get(k, 0) + v
    for key, detail in res.violations:
        agg["violations"].append((key, idx, plan, detail))
    if idx < 3 or (eng.directed() <= idx < eng.directed() + 3):
        agg["samples"].append((idx, eng.sample_view(plan)))
    agg["digests"][idx] = res.digest


def fold(total, agg):
    for k in ("runs", "ops", "sim_usec", "unparsed", "restarts"):
        total[k] += agg[k]
    total["max_index"] = max(total["max_index"], agg["max_index"])
    total["max_cpu_us"] = max(total["max_cpu_us"], agg["max_cpu_us"])
    total["hashes"] |= agg["hashes"]
    total["nt_hashes"] |= agg["nt_hashes"]
    for k, v in agg["faults"].items():
        total["faults"][k] = total["faults"].get(k, 0) + v
    for k, v in agg["probes"].items():
        total["probes"][k] = total["probes"].get(k, 0) + v
    total["violations"] += agg["violations"]
    total["samples"] += agg["samples"]
    total["errors"] += agg["errors"]
    total["digests"].update(agg["digests"])


def explore(engine_cls, tier, seed, budget, max_runs, workers, indices=None):
    ctx = mp.get_context("fork")
    counter = ctx.Value("q", 0)
    out_q = ctx.Queue()
    deadline = time.time() + budget
    procs = []
    for w in range(workers):
        sub = None
        if indices is not None:
            sub = indices[w::workers]
        p = ctx.Process(target=worker_main,
                        args=(engine_cls, tier, seed, counter, deadline, max_runs, out_q, w, sub))
        p.daemon = True
        p.start()
        procs.append(p)
    total = new_agg()
    finished = 0
    while finished < workers:
        try:
            a = out_q.get(timeout=600)
        except queue.Empty:
            total["errors"].append("controller: no message from workers for 600 s")
            break
        if a is None:
            finished += 1
            continue
        fold(total, a)
    for p in procs:
        p.join(timeout=5)
        if p.is_alive():
            p.terminate()
    return total


def run_plan_fresh(engine_cls, tier, seed, plan):
    eng = engine_cls(tier, seed)
    ex = Executor()
    try:
        res = eng.run(ex, plan)
    finally:
        ex.close()
        eng.close()
    return res


def gate_and_minimise(engine_cls, tier, seed, key, plan, log):
    """Returns (status, plan): status 'ok' (reproduced twice, minimised),
    'flaky' (did not reproduce identically)."""
    r1 = run_plan_fresh(engine_cls, tier, seed, plan)
    r2 = run_plan_fresh(engine_cls, tier, seed, plan)
    k1 = [k for k, _ in r1.violations]
    k2 = [k for k, _ in r2.violations]
    # (C13's subject is determinism itself: there a violation that shows in both re-executions is real even when the
    # two executions differ from each other - the program under test is then nondeterministic under identical simulated
    # conditions, which is what the property forbids)
    if key not in k1 or key not in k2 or (r1.digest != r2.digest and not getattr(engine_cls, "digest_may_vary", False)):
        log("gate: key %s did not reproduce identically (%s / %s, digests %s %s)" % (key, k1, k2, r1.digest, r2.digest))
        return "flaky", plan
    eng = engine_cls(tier, seed)
    ex = Executor()
    tries = 0
    t0 = time.time()
    improved = True
    max_tries = 8 if "hang" in key else 400
    while improved and tries < max_tries and time.time() - t0 < 90:
        improved = False
        for cand in eng.shrink(plan):
            tries += 1
            try:
                r = eng.run(ex, cand)
            except Exception:
                ex.close()
                continue
            if key in [k for k, _ in r.violations]:
                plan = cand
                improved = True
                break
            if tries >= max_tries or time.time() - t0 > 90:
                break
    ex.close()
    eng.close()
    r3 = run_plan_fresh(engine_cls, tier, seed, plan)
    if key not in [k for k, _ in r3.violations]:
        log("gate: minimised plan lost key %s" % key)
        return "flaky", plan
    log("minimised %s in %d re-runs" % (key, tries))
    return "ok", plan


def main(engine_cls):
    ap = argparse.ArgumentParser()
    ap.add_argument("--tier", default=os.environ.get("VERIF_TIER", "quick"))
    ap.add_argument("--replay")
    ap.add_argument("--budget", type=float)
    ap.add_argument("--runs", type=int, default=0)
    ap.add_argument("--workers", type=int, default=int(os.environ.get("VERIF_WORKERS", "16")))
    ap.add_argument("--seed", type=int)
    ap.add_argument("--no-evidence", action="store_true")
    ap.add_argument("--selftest-determinism", type=int, default=0,
                    help="run N indices twice (at 4 and at 16 workers) and diff digests")
    ap.add_argument("--dump-keys", action="store_true")
    ap.add_argument("--dump-digests", help="write {run index: determinism digest} of this exploration to a JSON file")
    ap.add_argument("--dump-viol", help="write every (key, run index, plan) of this exploration to a JSON-lines file (triage aid)")
    ap.add_argument("--plan-of", type=int, default=None, help="print and run the plan of one run index")
    args = ap.parse_args()
    tier = args.tier if args.tier in ("quick", "thorough") else "quick"
    seed = args.seed
    if seed is None:
        s = os.environ.get("VERIF_SEED")
        seed = int(s) if s not in (None, "") else DEFAULT_SEEDS[tier]
    prop = engine_cls.prop
    t_start = time.time()
    build_s = build()
    for v in getattr(engine_cls, "variants", ()):
        build_s += build(v)

    def log(msg):
        print("[%s] %s" % (prop, msg), flush=True)

    if args.plan_of is not None:
        eng = engine_cls(tier, seed)
        plan = eng.plan(Rng.for_run(seed, prop, args.plan_of), args.plan_of)
        print(json.dumps(trim(plan, 2000), indent=1, default=str))
        res = run_plan_fresh(engine_cls, tier, seed, plan)
        for k, d in res.violations:
            log("  %s %s" % (k, canon(trim(d, 3000))))
        log("digest %s probes %s faults %s" % (res.digest, res.probes, res.faults))
        sys.exit(0)

    if args.replay:
        rp = json.load(open(args.replay))
        res = run_plan_fresh(engine_cls, tier, rp.get("seed", seed), rp["plan"])
        keys = [k for k, _ in res.violations]
        log("replay %s: keys=%s digest=%s (recorded key %s digest %s)" % (
            args.replay, keys, res.digest, rp.get("key"), rp.get("digest")))
        for k, d in res.violations:
            log("  %s %s" % (k, canon(trim(d, 600))))
        if rp.get("key") in keys:
            print("VIOLATION property=%s replay=%s" % (prop, args.replay))
            sys.exit(1)
        sys.exit(0)

    if args.selftest_determinism:
        n = args.selftest_determinism
        idx = list(range(n))
        a = explore(engine_cls, tier, seed, 1e9, 0, 4, idx)
        b = explore(engine_cls, tier, seed, 1e9, 0, 16, idx)
        diffs = [i for i in idx if a["digests"].get(i) != b["digests"].get(i)]
        log("determinism selftest: %d indices x 2 (4 and 16 workers): %d differ %s" % (n, len(diffs), diffs[:10]))
        for e in (a["errors"] + b["errors"])[:5]:
            log("error: " + e)
        sys.exit(0 if not diffs and not a["errors"] and not b["errors"] else 2)

    max_runs = args.runs
    if args.budget is not None:
        budget = args.budget
    elif tier == "quick":
        # a fixed set of run indices, so that the quick check is reproducible on any machine;
        # the time budget is only a safety cap
        budget = engine_cls.quick_budget * 5
        if not max_runs:
            max_runs = engine_cls.quick_runs
    else:
        # also a fixed set of run indices (ten times the quick tier unless the engine says otherwise):
        # what the thorough tier reports does not depend on how fast the machine is
        budget = engine_cls.thorough_budget * 3
        if not max_runs:
            max_runs = getattr(engine_cls, "thorough_runs", engine_cls.quick_runs * 10)
    total = explore(engine_cls, tier, seed, budget, max_runs, args.workers)
    wall_explore = time.time() - t_start

    # regression corpus: the minimised plans of violations that were repaired in /repo (replays/fixed) are
    # re-executed on every run; a repaired defect that comes back is reported like any other violation
    import glob
    fixed = sorted(glob.glob(os.path.join(VERIF, "replays", "fixed", prop + "-*.json")))
    regress = 0
    for n, path in enumerate(fixed):
        try:
            rp = json.load(open(path))
            res = run_plan_fresh(engine_cls, tier, rp.get("seed", seed), rp["plan"])
        except Exception:
            total["errors"].append("regression replay %s: %s" % (os.path.basename(path), traceback.format_exc()[-600:]))
            continue
        regress += 1
        total["ops"] += res.ops
        for key, detail in res.violations:
            detail = dict(detail)
            detail["regression_of"] = os.path.basename(path)
            total["violations"].append((key, -1 - n, rp["plan"], detail))
    total["probes"]["regression_replays_of_repaired_defects"] = regress

    known = [k for k in load_known() if k["property"] == prop]
    open_keys = {k["key"]: k for k in known if k.get("status") == "open"}
    by_key = {}
    for key, idx, plan, detail in total["violations"]:
        by_key.setdefault(key, []).append((idx, plan, detail))
    if args.dump_digests:
        with open(args.dump_digests, "w") as f:
            json.dump({str(k): v for k, v in sorted(total["digests"].items())}, f)
    if args.dump_viol:
        with open(args.dump_viol, "w") as f:
            for key, idx, plan, detail in total["violations"]:
                f.write(json.dumps({"key": key, "idx": idx, "plan": trim(plan, 400)}, default=str) + "\n")
    if args.dump_keys:
        for key in sorted(by_key):
            idx, plan, detail = min(by_key[key], key=lambda t: t[0])
            log("KEY %s  x%d  first idx %d  %s" % (key, len(by_key[key]), idx, canon(trim(detail, 400))[:900]))
    known_seen = {}
    new = {}
    for key in sorted(by_key):
        if key in open_keys:
            known_seen[key] = len(by_key[key])
        else:
            new[key] = by_key[key]

    exit_code = 0
    reported = []
    harness_trouble = list(total["errors"])
    os.makedirs(os.path.join(VERIF, "replays"), exist_ok=True)
    for key in sorted(new)[:8]:
        idx, plan, detail = min(new[key], key=lambda t: t[0])
        status, mplan = gate_and_minimise(engine_cls, tier, seed, key, plan, log)
        if status != "ok":
            harness_trouble.append("violation %s (run %d) did not pass the determinism gate" % (key, idx))
            continue
        res = run_plan_fresh(engine_cls, tier, seed, mplan)
        det = [d for k, d in res.violations if k == key]
        path = os.path.join(VERIF, "replays", "%s-%s.json" % (prop, plan_hash(key)))
        with open(path, "w") as f:
            json.dump({"property": prop, "key": key, "seed": seed, "run_index": idx, "tier": tier,
                       "original_plan_hash": plan_hash(plan), "digest": res.digest,
                       "detail": trim(det[0] if det else detail, 2000), "plan": mplan}, f, indent=1,
                      default=lambda b: b.decode("latin-1") if isinstance(b, (bytes, bytearray)) else str(b))
        log("violation %s: %s" % (key, canon(trim(det[0] if det else detail, 500))[:1200]))
        print("VIOLATION property=%s replay=%s" % (prop, path), flush=True)
        reported.append(key)
        exit_code = 1
    if len(new) > 8:
        log("%d further new violation keys not minimised: %s" % (len(new) - 8, sorted(new)[8:30]))

    for key in sorted(known_seen):
        print("KNOWN-FINDING: property=%s %s (%s; seen %d times this run)" % (
            prop, key, open_keys[key].get("what", ""), known_seen[key]), flush=True)
    for key in sorted(open_keys):
        if key not in known_seen:
            print("KNOWN-FINDING: property=%s %s (%s; listed, not re-observed in this run)" % (
                prop, key, open_keys[key].get("what", "")), flush=True)

    runs = total["runs"]
    if runs and total["unparsed"] > 0.01 * max(total["ops"], 1):
        harness_trouble.append("unparsed rate %d/%d above 1%%" % (total["unparsed"], total["ops"]))
    for e in harness_trouble[:10]:
        log("HARNESS: " + e)

    wall = time.time() - t_start
    eng = engine_cls(tier, seed)
    samples = [s for _, s in sorted(total["samples"], key=lambda t: t[0])[:4]]
    ev = {
        "property_id": prop,
        "tier": tier,
        "seed": seed,
        "level": "exploration",
        "coverage": {
            "evaluations": total["ops"],
            "distinct_nontrivial": len(total["nt_hashes"]),
            "rule": eng.rule,
            "samples": samples if samples else ["(no run completed)"],
            "simulated_runs": runs,
            "run_indices": "0..%d of seed %d (run i is a pure function of (seed, property, i))" % (total["max_index"], seed),
            "runs_per_hour": int(runs / max(wall_explore - build_s, 1e-3) * 3600),
            "simulated_time_s": round(total["sim_usec"] / 1e6, 3),
            "faults_fired": dict(sorted(total["faults"].items())),
            "probes": dict(sorted(total["probes"].items())),
            "distinct_event_hashes": len(total["hashes"]),
            "directed_runs": eng.directed(),
            "real_components": eng.real_components,
            "stub_components": eng.stub_components,
            "known_findings_observed": known_seen,
            "new_violation_keys": reported,
            "executor_restarts": total["restarts"],
            "slowest_completed_lifetime_cpu_ms": round(total["max_cpu_us"] / 1000.0, 1),
            "workers": args.workers,
            "build_s": round(build_s, 1),
            "harness_errors": harness_trouble[:10],
            "exhaustive": False,
        },
        "assumptions": eng.assumptions if hasattr(eng, "assumptions") else [],
        "wall_s": round(wall, 2),
        "violations": len(reported),
    }
    if not args.no_evidence:
        os.makedirs(os.path.join(VERIF, "evidence"), exist_ok=True)
        with open(os.path.join(VERIF, "evidence", prop + ".json"), "w") as f:
            json.dump(ev, f, indent=1, sort_keys=True)
    log("%s tier=%s seed=%d runs=%d ops=%d distinct=%d nontrivial=%d faults=%s wall=%.1fs (build %.1fs)" % (
        "FAIL" if exit_code else "ok", tier, seed, runs, total["ops"], len(total["hashes"]),
        len(total["nt_hashes"]), sum(total["faults"].values()), wall, build_s))
    if exit_code == 0 and (harness_trouble or runs == 0):
        sys.exit(2)
    sys.exit(exit_code)
