"""Seeded memory images (byte maps) rendered as .org/.db sources, and the
simulated disk's damage operators for stored object files."""
import struct

from . import progs

LENS = [1, 1, 2, 3, 15, 16, 17, 31, 32, 33, 255, 256, 257, 1000, 4096]
GAPS = [0, 1, 2, 15, 16, 17, 255, 4096, 65535, 65536, 70000]
BASES = [0, 0, 0x10, 0x100, 0xfff0, 0xfffe, 0x10000, 0x1fff0, 0xfffff0, 0x1000000, 0x7ffffff0, 0xfffffff0 - 0x20000]

IMAGE_CPUS = ["msp430", "z80", "68000", "mips", "arm", "avr8", "pic14", "propeller", "ebpf", "65816",
              "6502", "riscv", "lc3", "stm8", "tms9900", "8051", "powerpc", "dspic", "thumb", "1802",
              "f100_l", "cp1610", "pdp8", "8008", "tms1000", "xtensa", "sh4", "riscv64", "ps2_ee", "msp430x", "pic24"]


def gen_image(rng, cpu=None, max_bytes=6000, max_segments=5, small=False):
    """Returns {"cpu", "segments": [(addr, bytes)], "entry", "exports": [(name, addr)]}.
    Addresses are byte addresses; every segment start is a multiple of the CPU's
    bytes_per_address so that `.org` can express it."""
    if cpu is None:
        cpu = rng.pick(IMAGE_CPUS)
    info = progs.cpu_info(cpu)
    bpa = info["bpa"]
    nseg = rng.range(1, max_segments)
    base = rng.pick(BASES) if not small else rng.pick([0, 0x100, 0xf800])
    # keep address * 1 < 2^32 and address/bpa meaningful
    addr = base - (base % bpa)
    segs = []
    total = 0
    for i in range(nseg):
        ln = rng.pick(LENS) if rng.chance(3, 4) else rng.range(1, 300)
        if not small and i == 0 and max_bytes >= 6000 and rng.chance(1, 40):
            # one run longer than a writer's 64 KiB block buffer / page
            ln = rng.pick([65535, 65536, 65537, 70000])
            max_bytes = max(max_bytes, ln + 3000)
        if small:
            ln = min(ln, 40)
        if total + ln > max_bytes:
            ln = max(1, max_bytes - total)
        if addr + ln >= 0xffffffff:
            break
        kind = rng.below(4)
        if kind == 0:
            data = rng.bytes(ln)
        elif kind == 1:
            data = bytes((i * 37 + j) & 0xff for j in range(ln))
        elif kind == 2:
            data = bytes([rng.pick([0x00, 0xff, 0x3a, 0x53, 0x0a])]) * ln
        else:
            data = bytes(rng.pick(b"abcxyz019 \x00\xff") for _ in range(ln))
        segs.append((addr, data))
        total += ln
        if total >= max_bytes:
            break
        gap = rng.pick(GAPS)
        nxt = addr + ln + gap
        nxt += (-nxt) % bpa
        if nxt <= addr + ln - 1:
            nxt = addr + ln + ((-(addr + ln)) % bpa)
        addr = nxt
        if addr - segs[0][0] > (1 << 24) - 70000:
            break
    img = {"cpu": cpu, "segments": segs, "entry": None, "exports": []}
    if rng.chance(1, 3):
        a, d = rng.pick(segs)
        img["entry"] = a
    for i in range(rng.below(4)):
        a, d = rng.pick(segs)
        off = rng.below(len(d))
        off -= off % bpa
        img["exports"].append(("sym_%d_%x" % (i, rng.below(4096)), a + off))
    return img


def image_bytes(img):
    m = {}
    for a, d in img["segments"]:
        for i, b in enumerate(d):
            m[a + i] = b
    return m


def render_image(img):
    """Source text using only .org / .db (literal bytes) / labels / .export / .entry_point."""
    info = progs.cpu_info(img["cpu"])
    bpa = info["bpa"]
    lines = [".%s" % img["cpu"]]
    labels = {}
    for name, addr in img["exports"]:
        labels.setdefault(addr, []).append(name)
    entry_label = None
    if img["entry"] is not None:
        entry_label = "entry_here"
        labels.setdefault(img["entry"], []).append(entry_label)
    for a, d in img["segments"]:
        lines.append(".org 0x%x" % (a // bpa))
        i = 0
        while i < len(d):
            for name in labels.get(a + i, []):
                lines.append("%s:" % name)
            # next label position inside this segment
            nxt = min([p - a for p in labels if a + i < p < a + len(d)] + [len(d)])
            n = min(16, nxt - i)
            lines.append(".db " + ", ".join("0x%02x" % b for b in d[i:i + n]))
            i += n
    for name, addr in img["exports"]:
        lines.append(".export %s" % name)
    if entry_label:
        lines.append(".entry_point %s" % entry_label)
    return "\n".join(lines) + "\n"


# ------------------------------------------------------------------ damage

EXTREMES = [0, 1, 2, 0x7f, 0x80, 0xff, 0x7fff, 0x8000, 0xffff, 0x7fffffff, 0x80000000, 0xffffffff, 0xfffffffe]


def damage(rng, data, fmt):
    """One damage operator of the simulated disk.  Returns (new_bytes, description)."""
    n = len(data)
    b = bytearray(data)
    ops = ["cut", "flip", "byte", "zero-sector", "dup-sector", "field32", "field16", "extend", "none"]
    if fmt in ("hex", "srec", "ti_txt"):
        ops += ["drop-line", "dup-line", "text-field", "text-field", "long-line", "text-junk"]
    op = rng.pick(ops)
    if n == 0:
        return bytes(b), "empty"
    if op == "cut":
        k = rng.below(n + 1) if rng.chance(2, 3) else rng.pick([0, 1, 3, 4, 5, 16, 52, n - 1, n // 2])
        k = max(0, min(n, k))
        return bytes(b[:k]), "cut@%d" % k
    if op == "flip":
        k = rng.below(n)
        b[k] ^= 1 << rng.below(8)
        return bytes(b), "flip@%d" % k
    if op == "byte":
        k = rng.below(min(n, 128)) if rng.chance(1, 2) else rng.below(n)
        b[k] = rng.pick([0, 1, 0x7f, 0x80, 0xff, ord(":"), ord("S"), ord("\n"), ord("g")])
        return bytes(b), "byte@%d" % k
    if op == "zero-sector":
        k = rng.below(max(n // 512, 1)) * 512
        b[k:k + 512] = bytes(len(b[k:k + 512]))
        return bytes(b), "zero-sector@%d" % k
    if op == "dup-sector":
        k = rng.below(max(n // 512, 1)) * 512
        b[k:k] = b[k:k + 512]
        return bytes(b), "dup-sector@%d" % k
    if op in ("field32", "field16"):
        width = 4 if op == "field32" else 2
        region = []
        if fmt == "elf" and n >= 52:
            is64 = b[4] == 2
            le = b[5] != 2
            shoff = struct.unpack_from("<I" if le else ">I", b, 0x28 if is64 else 0x20)[0]
            region = list(range(0x10, 64 if is64 else 52, 2))
            if shoff < n:
                region += list(range(shoff, min(n, shoff + 64 * 8), 4))
            # symtab / section contents too
            region += [rng.below(n) & ~1 for _ in range(8)]
        elif fmt == "uf2":
            blk = rng.below(max(n // 512, 1)) * 512
            region = [blk + o for o in (0, 4, 8, 12, 16, 20, 24, 28, 508)]
        elif fmt == "macho":
            region = list(range(0, min(n, 400), 4))
        elif fmt == "amiga":
            region = list(range(0, min(n, 120), 4)) + [max(0, n - 4), max(0, n - 8)]
        elif fmt == "wdc":
            region = list(range(0, min(n, 16))) + [rng.below(n)]
        else:
            region = [rng.below(n)]
        k = rng.pick(region)
        if n < width:
            return bytes(b), "intact"
        k = max(0, min(k, n - width))
        v = rng.pick(EXTREMES + [n, n - 1, n + 1, n - 52])
        big = fmt in ("amiga",) or (fmt == "elf" and n > 5 and b[5] == 2) or rng.chance(1, 6)
        fmtc = (">" if big else "<") + ("I" if width == 4 else "H")
        struct.pack_into(fmtc, b, k, v & ((1 << (8 * width)) - 1))
        return bytes(b), "%s@%d=%#x" % (op, k, v)
    if op == "extend":
        extra = rng.bytes(rng.pick([1, 4, 512, 4096]))
        return bytes(b) + extra, "extend+%d" % len(extra)
    if op == "none":
        return bytes(b), "intact"
    lines = bytes(b).split(b"\n")
    k = rng.below(len(lines))
    if op == "drop-line":
        del lines[k]
        return b"\n".join(lines), "drop-line@%d" % k
    if op == "dup-line":
        lines.insert(k, lines[k])
        return b"\n".join(lines), "dup-line@%d" % k
    if op == "long-line":
        lines[k] = lines[k] + rng.pick([b"0", b"F", b"41"]) * rng.pick([1, 2, 16, 300, 5000])
        return b"\n".join(lines), "long-line@%d" % k
    if op == "text-junk":
        lines.insert(k, rng.pick([b":", b"S", b"@", b"q", b":00", b"S1", b"@zz", b"S9030000FC", b":0000000", b"\x00\x00", b" ", b"S0"]) + rng.pick([b"", b"\r", b"FF" * 20]))
        return b"\n".join(lines), "text-junk@%d" % k
    # text-field: rewrite byte count / record type / address digits
    l = bytearray(lines[k])
    if len(l) >= 4:
        pos = rng.pick([1, 2, 3, 4, 5, 6, 7, 8]) if rng.chance(3, 4) else rng.below(len(l))
        pos = min(pos, len(l) - 1)
        l[pos] = rng.pick(b"0123456789ABCDEFabcdefgS:@q \xff")
        if rng.chance(1, 3) and pos + 1 < len(l):
            l[pos + 1] = rng.pick(b"0F")
    lines[k] = bytes(l)
    return b"\n".join(lines), "text-field@%d" % k


def ti_txt(img):
    """TI-TXT rendering of an image (the one readable format naken_asm cannot write)."""
    out = []
    for a, d in img["segments"]:
        out.append("@%04X" % a)
        for i in range(0, len(d), 16):
            out.append(" ".join("%02X" % x for x in d[i:i + 16]))
    out.append("q")
    return ("\n".join(out) + "\n").encode()
