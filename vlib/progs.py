"""Seeded generator of assembler workloads.

A program is a list of *statements* (each one or more source lines) plus side
files (.include / .binfile targets).  Statements are the unit that corruption
operators and the minimiser address.
"""
import json
import os

from .core import VERIF

_corpus = None
_cpus = None


def corpus():
    global _corpus
    if _corpus is None:
        _corpus = json.load(open(os.path.join(VERIF, "corpus", "instr.json")))
    return _corpus


def cpus():
    global _cpus
    if _cpus is None:
        _cpus = json.load(open(os.path.join(VERIF, "corpus", "cpus.json")))
    return _cpus


def cpu_info(name):
    for c in cpus():
        if c["name"] == name:
            return c
    return None


# CPUs whose corpus file name is also the directive name and which are in cpu_list
def corpus_cpus():
    names = set(c["name"] for c in cpus())
    return sorted(c for c in corpus() if c in names and len(corpus()[c]) >= 5)


def data_only_cpus():
    have = set(corpus_cpus())
    return sorted(c["name"] for c in cpus() if c["name"] not in have)


def ident(rng, prefix="L"):
    return "%s_%x" % (prefix, rng.below(1 << 24))


def number(rng, bits=8):
    v = rng.below(1 << bits)
    k = rng.below(5)
    if k == 0:
        return "0x%x" % v
    if k == 1 and v < 256:
        return "%d" % v
    if k == 2:
        return "0x%02x" % v
    if k == 3 and bits <= 8:
        return "0b" + bin(v)[2:]
    return "%d" % v


def data_stmt(rng):
    k = rng.below(8)
    if k == 6:
        # the wider and rarer data directives
        d = rng.pick([".dc64", ".dq", ".dc16", ".dc8", ".dl", ".dd", ".varuint", ".dc32"])
        bits = {".dc64": 32, ".dq": 32, ".dc16": 16, ".dc8": 8, ".dl": 32, ".dd": 32, ".varuint": 16, ".dc32": 32}[d]
        if d in (".dc64", ".dq") and rng.chance(1, 2):
            return ["%s 0x%016x" % (d, rng.u64())]
        return ["%s %s" % (d, ", ".join(number(rng, bits) for _ in range(rng.range(1, 3))))]
    if k == 7:
        return [".resb %d" % rng.range(1, 9)] + [".db " + ", ".join(number(rng) for _ in range(rng.range(1, 4)))]
    if k == 0:
        return [".db " + ", ".join(number(rng) for _ in range(rng.range(1, 8)))]
    if k == 1:
        return [".dw " + ", ".join(number(rng, 16) for _ in range(rng.range(1, 4)))]
    if k == 2:
        txt = "".join(rng.pick("abcdefghijklmnopqrstuvwxyzABCXYZ0189 _-") for _ in range(rng.range(1, 12)))
        return ['.ascii "%s"' % txt]
    if k == 3:
        return [".dc32 " + ", ".join(number(rng, 32) for _ in range(rng.range(1, 3)))]
    if k == 4:
        if rng.chance(1, 3):
            # white space inside quotes is data: a literal TAB (or several blanks) must reach the image as written
            txt = "".join(rng.pick(["a", "b", "\t", " ", "  ", "z", "\t\t", "9"]) for _ in range(rng.range(1, 6)))
            return [rng.pick(['.ascii "%s"', '.db "%s"', '.asciiz "%s"']) % txt]
        return [".db (%s + %s) & 0xff, %s << 1 & 0xff" % (number(rng), number(rng), number(rng, 6))]
    return ['.asciiz "%s"' % "".join(rng.pick("qwertyuiop") for _ in range(rng.range(1, 6)))]


def instr_stmt(rng, cpu):
    c = corpus().get(cpu)
    if not c:
        return data_stmt(rng)
    return [rng.pick(["  ", "  ", "\t", " \t "]) + rng.pick(c)[0]]


def gen_program(rng, cpu=None, nstmts=None, allow_includes=True, instr_share=3):
    """Returns {"cpu", "stmts": [[lines]...], "files": {relpath: text}}"""
    if cpu is None:
        cpu = rng.pick(corpus_cpus()) if rng.chance(5, 6) else rng.pick(data_only_cpus())
    n = nstmts if nstmts is not None else rng.range(2, 12)
    stmts = [[".%s" % cpu]]
    if rng.chance(1, 2):
        stmts.append([".org 0x%x" % rng.pick([0, 0, 0x100, 0x1000, 0x8000, 0xf800])])
    files = {}
    defined = []
    macro_names = []
    ninc = 0
    for i in range(n):
        k = rng.below(21)
        if k == 20:
            # a further .org: placement order in the source (ascending or descending, other 64 KiB page) must not matter
            stmts.append([".org 0x%x" % rng.pick([0x40, 0x400, 0x2000, 0x9000, 0x12000, 0x24000, 0x3fff0])])
            stmts.append(data_stmt(rng))
        elif k < instr_share * 3:
            stmts.append(instr_stmt(rng, cpu))
        elif k < 11:
            stmts.append(data_stmt(rng))
        elif k == 11:
            stmts.append(["%s:" % ident(rng)])
        elif k == 12:
            name = ident(rng, "D")
            defined.append(name)
            stmts.append([".define %s %s" % (name, number(rng))])
            stmts.append([".db %s" % name])
        elif k == 13:
            name = ident(rng, "M")
            macro_names.append(name)
            np = rng.range(0, 3)
            params = ["p%d" % j for j in range(np)]
            body = []
            for _ in range(rng.range(1, 3)):
                if params and rng.chance(1, 2):
                    body.append("  .db " + ", ".join(params))
                elif rng.chance(1, 2):
                    body += instr_stmt(rng, cpu)
                else:
                    body += data_stmt(rng)
            head = ".macro %s" % name + ("(%s)" % ",".join(params) if params else "")
            stmts.append([head] + body + [".endm"])
            call = name + ("(%s)" % ",".join(number(rng) for _ in params) if params else "")
            stmts.append([call])
        elif k == 14:
            cond = rng.pick(["1", "0", "1 == 1", "2 > 3", "5 - 5", "(1 + 1) == 2"])
            blk = [".if " + cond] + data_stmt(rng)
            if rng.chance(1, 2):
                blk += [".else"] + data_stmt(rng)
            blk += [".endif"]
            stmts.append(blk)
        elif k == 15:
            name = rng.pick(defined) if defined and rng.chance(1, 2) else ident(rng, "U")
            blk = [rng.pick([".ifdef ", ".ifndef "]) + name] + data_stmt(rng) + [".endif"]
            stmts.append(blk)
        elif k == 16:
            stmts.append([".repeat %d" % rng.range(1, 5)] + data_stmt(rng) + [".endr"])
        elif k == 17 and allow_includes and ninc < 3:
            ninc += 1
            fname = "inc/f%d.inc" % ninc if rng.chance(1, 2) else "g%d.inc" % ninc
            body = []
            for _ in range(rng.range(1, 3)):
                body += data_stmt(rng) if rng.chance(1, 2) else instr_stmt(rng, cpu)
            files[fname] = "\n".join(body) + "\n"
            stmts.append(['.include "%s"' % fname])
        elif k == 18:
            name = ident(rng, "S")
            stmts.append([".set %s=%s" % (name, number(rng))])
            stmts.append([".db %s" % name])
        else:
            if allow_includes and rng.chance(1, 3) and ninc < 3:
                ninc += 1
                fname = "bin%d.dat" % ninc
                files[fname] = rng.bytes(rng.range(1, 40)).decode("latin-1")
                stmts.append(['.binfile "%s"' % fname])
            else:
                name = ident(rng, "E")
                stmts.append(["%s equ %s" % (name, number(rng))])
                stmts.append([".db %s" % name])
    return {"cpu": cpu, "stmts": stmts, "files": files}


def render(prog):
    return "\n".join("\n".join(s) for s in prog["stmts"]) + "\n"


def fs_for(prog, main="a.asm", cwd="/sim/w"):
    files = {cwd + "/" + main: render(prog).encode("latin-1")}
    for name, text in prog["files"].items():
        files[cwd + "/" + name] = text.encode("latin-1") if isinstance(text, str) else text
    return files
