#!/bin/bash
# usage: mutant_verify.sh <dir with patchK.diff demoK.sh> <K>
# Confirms in a scratch worktree of /repo HEAD: clean build passes the demo; patched build compiles,
# fails the demo and passes the repository's own test suite.  Removes the worktree afterwards.
set -u
D=$1; K=$2
WT=$(mktemp -d /tmp/mutv.XXXXXX)
L=$(mktemp -d /tmp/mutvlog.XXXXXX)
git -C /repo worktree add --detach -f "$WT" HEAD >/dev/null 2>&1 || { echo "worktree failed"; exit 2; }
cd "$WT"
( ./configure && make -j16 ) >/dev/null 2>&1 || { echo "clean build failed"; }
bash "$D/demo$K.sh" "$WT" >$L/clean.out 2>&1; CLEAN=$?
git apply "$D/patch$K.diff" || { echo "patch does not apply"; git -C /repo worktree remove --force "$WT"; exit 2; }
make clean >/dev/null 2>&1; make -j16 >$L/build.out 2>&1; BUILD=$?
bash "$D/demo$K.sh" "$WT" >$L/patched.out 2>&1; PATCHED=$?
make tests >$L/tests.out 2>&1; TESTS=$?
NPASS=$(grep -c -i "pass" $L/tests.out); NFAIL=$(grep -c -i "fail" $L/tests.out)
cd /
git -C /repo worktree remove --force "$WT"
echo "demo_clean_exit=$CLEAN build_exit=$BUILD demo_patched_exit=$PATCHED tests_exit=$TESTS pass_lines=$NPASS fail_lines=$NFAIL"
tail -n 3 $L/patched.out
rm -rf "$L"
