#!/usr/bin/env python3
"""Regenerates section 15 of DESIGN.md (seeded changes table) from seeded/*/meta.json."""
import json, glob, os
p = '/verif/DESIGN.md'; s = open(p).read()
i = s.index("## 15. Seeded changes and which checks catch them"); j = s.index("## 16. False alarms of the machinery that were corrected")
rows = []; n_total = n_first = n_not = n_disc = 0
rounds = set()
for d in sorted(glob.glob('/verif/seeded/*/meta.json')):
    m = json.load(open(d)); sid = os.path.basename(os.path.dirname(d))
    summ = m['summary'].replace('\n', ' ').replace('|', '/')
    if len(summ) > 160: summ = summ[:160] + '...'
    if m.get("status", "").startswith("discarded"):
        n_disc += 1
        rows.append("| %s | %s | %s | discarded: %s |" % (sid, m['property'], summ, m['confirmed_by_main_session']['result'].replace('|', '/')[:220])); continue
    n_total += 1
    note = m['detection']['note'].replace('|', '/')
    if 'missed at first' in note: n_first += 1
    if not m['detection']['detected']: n_not += 1
    rows.append("| %s | %s | %s | %s |" % (sid, m['property'], summ, note))
new = '''## 15. Seeded changes and which checks catch them

Several rounds of changes were written by independent sub-agents that saw only
one property statement and a scratch worktree of /repo (never /verif); later
rounds were also told what earlier rounds had produced and asked for
other mechanisms and other parts of the behaviour. Each change was confirmed
in a fresh scratch worktree (`tools/mutant_verify.sh`: clean build passes the
demonstration; patched build compiles, fails it and passes `make tests`), then
applied to /repo, checked with the quick tier (`tools/mutant_check.sh`) and
reverted (fifth round: applied in a scratch worktree and checked through
`VERIF_REPO`, `tools/mutant_check_wt.sh`, while a background job was
rebuilding from /repo). %d changes are kept (`seeded/<id>/{patch.diff, demo.sh,
meta.json}`): %d are caught by the quick tier now - %d of them only after the
strengthening noted in the last column - and %d are not caught, each with the
reason in the table. %d further changes were discarded because a repair made
in the meantime removed their effect. Some changes are caught by the check of
a neighbouring property rather than by the one their author named (noted in
the table). The authors' side remarks about the unchanged tree led to
some forty further repairs (section 14).

| seeded id | property | change | caught as (and what had to be strengthened) |
|---|---|---|---|
%s

''' % (n_total, n_total - n_not, n_first, n_not, n_disc, "\n".join(rows))
s = s[:i] + new + s[j:]
open(p, 'w').write(s)
print("kept", n_total, "missed-at-first", n_first, "not-detected", n_not, "discarded", n_disc)
