#!/usr/bin/env python3
"""Snapshot of tests/comparison/*.txt from the pinned tree -> corpus/instr.json.
Keeps only lines that the pinned assembler accepts stand-alone (status 0)."""
import sys, os, json, glob
sys.path.insert(0, os.path.dirname(os.path.dirname(os.path.abspath(__file__))))
from vlib.core import *
ex = Executor()
out = {}
for f in sorted(glob.glob(REPO + "/tests/comparison/*.txt")):
    cpu = os.path.basename(f)[:-4]
    keep = []
    seen = set()
    for line in open(f, errors="replace"):
        line = line.rstrip("\n")
        if "|" not in line: continue
        ins, hx = line.rsplit("|", 1)
        ins = ins.strip()
        if ins.startswith("main:"): ins = ins[5:].strip()
        if not ins or ins in seen: continue
        seen.add(ins)
        src = (".%s\n.org 0\n  %s\n" % (cpu, ins)).encode()
        o = ex.call(build_request(MODE_ASM, ["naken_asm", "-o", "o.hex", "a.asm"], {"/sim/w/a.asm": src}))
        if o.kind() == "exit" and o.status == 0:
            hexf = [d for p, k, d in o.delta if p.endswith("o.hex")]
            data = b""
            for l in hexf[0].decode().split():
                n = int(l[1:3], 16); t = int(l[7:9], 16)
                if t == 0: data += bytes.fromhex(l[9:9 + 2 * n])
            # position independent? (same bytes when assembled at another address)
            pi = 1
            for org in (0x40, 0x7f30, 0x2a10):
                src2 = (".%s\n.org 0x%x\n  %s\n" % (cpu, org, ins)).encode()
                o2 = ex.call(build_request(MODE_ASM, ["naken_asm", "-o", "o.hex", "a.asm"], {"/sim/w/a.asm": src2}))
                data2 = None
                if o2.kind() == "exit" and o2.status == 0:
                    data2 = b""
                    for l in [d for p, k, d in o2.delta if p.endswith("o.hex")][0].decode().split():
                        n = int(l[1:3], 16); t = int(l[7:9], 16)
                        if t == 0: data2 += bytes.fromhex(l[9:9 + 2 * n])
                if data2 != data:
                    pi = 0
            keep.append([ins, data.hex(), pi])
    out[cpu] = keep
    print(cpu, len(keep), file=sys.stderr)
json.dump(out, open(os.path.join(VERIF, "corpus", "instr.json"), "w"), indent=0, sort_keys=True)
