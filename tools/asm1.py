#!/usr/bin/env python3
"""ad-hoc: tools/asm1.py 'source with \n' [args...]  -- runs one simulated naken_asm lifetime"""
import sys, os, time
sys.path.insert(0, os.path.dirname(os.path.dirname(os.path.abspath(__file__))))
from vlib.core import *
src = sys.argv[1].encode().decode("unicode_escape").encode("latin-1")
args = sys.argv[2:] or ["-o", "out.hex", "a.asm"]
from vlib import framework; framework.build()
ex = Executor()
t = time.time()
o = ex.call(build_request(MODE_ASM, ["naken_asm"] + args, {"/sim/w/a.asm": src}, cpu_ms=int(os.environ.get("CPU_MS", "5000"))))
print("kind=%s status=%s events=%d cpu=%.3fs wall=%.3fs key=%s" % (o.kind(), o.status, o.event_count, o.cpu_us / 1e6, time.time() - t, crash_key(o, "adhoc")))
print(o.text()[-int(os.environ.get("TAIL", "600")):])
print(o.stderr.decode("latin-1")[:int(os.environ.get("ERR", "1500"))])
for p, k, d in o.delta:
    print("DELTA", p, k, len(d))
ex.close()
