#!/usr/bin/env python3
"""ad-hoc: tools/dbg.py C17 <run index> [seed]   or   tools/dbg.py C17 replay.json
Runs one plan, dumps every executor outcome (stdout/stderr) under /tmp/dbg/."""
import importlib, json, os, sys
sys.path.insert(0, os.path.dirname(os.path.dirname(os.path.abspath(__file__))))
from vlib.core import *
from vlib import framework

prop = sys.argv[1].upper()
mod = importlib.import_module("engines." + prop.lower())
cls = getattr(mod, prop)
tier = os.environ.get("VERIF_TIER", "quick")
seed = int(sys.argv[3]) if len(sys.argv) > 3 else framework.DEFAULT_SEEDS[tier]
framework.build()
framework.build("small")
eng = cls(tier, seed)
if sys.argv[2].endswith(".json"):
    plan = json.load(open(sys.argv[2]))["plan"]
else:
    idx = int(sys.argv[2])
    plan = eng.plan(Rng.for_run(seed, prop, idx), idx)
os.makedirs("/tmp/dbg", exist_ok=True)
json.dump(plan, open("/tmp/dbg/plan.json", "w"), indent=1, default=str)
outs = []
orig = Executor.call
def call(self, req):
    o = orig(self, req)
    outs.append(o)
    return o
Executor.call = call
ex = Executor()
res = eng.run(ex, plan)
ex.close()
for i, o in enumerate(outs):
    open("/tmp/dbg/out%d.txt" % i, "wb").write(o.stdout)
    open("/tmp/dbg/err%d.txt" % i, "wb").write(o.stderr)
    print("call %d: kind=%s status=%s events=%d usleeps=%d cpu=%.2fs stdout=%dB key=%s" % (
        i, o.kind(), o.status, o.event_count, o.usleeps, o.cpu_us / 1e6, len(o.stdout), crash_key(o, "dbg")))
for k, d in res.violations:
    print("VIOL", k, canon(framework.trim(d, 300))[:1500])
print("probes", res.probes, "faults", res.faults)
