#!/bin/bash
# Determinism across Python hash seeds and worker counts: the same run indices under PYTHONHASHSEED=1 / 16 workers
# and PYTHONHASHSEED=987654 / 5 workers must give identical per-run digests.  usage: selftest_hashseed.sh [runs] [props...]
N=${1:-600}; shift
D=$(mktemp -d /tmp/selftest.XXXXXX)
RC=0
for p in ${@:-C03 C12 C13 C14 C15 C16 C17 C19}; do
  PYTHONHASHSEED=1 bin/check $p --tier quick --runs $N --no-evidence --workers 16 --dump-digests $D/a_$p.json >/dev/null 2>&1
  PYTHONHASHSEED=987654 bin/check $p --tier quick --runs $N --no-evidence --workers 5 --dump-digests $D/b_$p.json >/dev/null 2>&1
  python3 - "$D/a_$p.json" "$D/b_$p.json" "$p" <<'P' || RC=1
import json, sys
a, b = json.load(open(sys.argv[1])), json.load(open(sys.argv[2]))
diff = [k for k in a if a[k] != b.get(k)]
print("%s: %d run indices, %d differ %s" % (sys.argv[3], len(a), len(diff), diff[:8]))
sys.exit(1 if diff or len(a) != len(b) or not a else 0)
P
done
rm -rf "$D"
exit $RC
