#!/bin/bash
# usage: run_baseline.sh <git-rev> <outfile>   -- builds a scratch worktree of /repo at <rev> with the stock
# configuration (guard off) and runs the repository's own test suite; log goes to <outfile>.
set -u
REV=${1:-HEAD}; OUT=${2:-/tmp/baseline_$REV.log}
D=$(mktemp -d /tmp/nakenwt.XXXXXX)
git -C /repo worktree add --detach -f "$D" "$REV" >/dev/null 2>&1 || { echo "worktree failed"; exit 2; }
( cd "$D" && ./configure >/dev/null 2>&1 && make -j16 >/dev/null 2>&1 && make tests 2>&1 ) > "$OUT"
echo "exit=$?" >> "$OUT"
git -C /repo worktree remove --force "$D"
grep -c -i "pass" "$OUT"; grep -i -c "fail" "$OUT"; tail -1 "$OUT"
