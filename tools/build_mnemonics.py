#!/usr/bin/env python3
"""Snapshot of the mnemonic strings in table/<cpu>.cpp of the pinned tree -> corpus/mnemonics.json (cpu directive -> names).
Input generation only: C12 sweeps 'mnemonic <literal>' statements with boundary / extreme literals."""
import sys, os, re, json, glob
sys.path.insert(0, os.path.dirname(os.path.dirname(os.path.abspath(__file__))))
from vlib.core import VERIF, REPO
from vlib import progs
names = set(c["name"] for c in progs.cpus())
out = {}
for f in sorted(glob.glob(REPO + "/table/*.cpp")):
    cpu = os.path.basename(f)[:-4]
    if cpu not in names:
        continue
    mns = sorted(set(m.lower() for m in re.findall(r'\{\s*"([A-Za-z][A-Za-z0-9_.]*)"\s*,', open(f, errors="replace").read())))
    if mns:
        out[cpu] = mns
    print(cpu, len(mns), file=sys.stderr)
json.dump(out, open(os.path.join(VERIF, "corpus", "mnemonics.json"), "w"), indent=0, sort_keys=True)
print(sum(len(v) for v in out.values()), "mnemonics for", len(out), "cpus")
