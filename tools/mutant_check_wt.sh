#!/bin/bash
# usage: mutant_check_wt.sh <patch> <PROP> [extra check args]
# Like mutant_check.sh, but the patch is applied in a scratch worktree of /repo HEAD (kept under /tmp/wt_mut with its own
# build cache) and the check is pointed at it through VERIF_REPO / VERIF_CACHE: /repo itself is not touched, so this can be
# used while a `vp run` job is rebuilding from /repo.  Remove /tmp/wt_mut and /tmp/wt_mut_cache when done
# (git -C /repo worktree remove --force /tmp/wt_mut).
set -u
P=$1; PROP=$2; shift 2
WT=/tmp/wt_mut
HEAD=$(git -C /repo rev-parse HEAD)
if [ ! -d $WT ]; then git -C /repo worktree add --detach -q $WT HEAD || exit 2; fi
git -C $WT checkout -q -- . ; git -C $WT checkout -q --detach $HEAD || exit 2
git -C $WT apply "$P" || { echo "patch does not apply"; exit 2; }
VERIF_REPO=$WT VERIF_CACHE=/tmp/wt_mut_cache /verif/bin/check $PROP --tier quick --no-evidence "$@" > /tmp/mutcheckwt_$PROP.log 2>&1; RC=$?
git -C $WT checkout -q -- .
echo "check_exit=$RC"; grep -E "VIOLATION|violation |FAIL|ok tier|HARNESS" /tmp/mutcheckwt_$PROP.log | cut -c1-300 | head -8
rm -f /verif/replays/$PROP-*.json
