#!/usr/bin/env python3
"""ad-hoc: tools/util1.py 'asm source' 'argv...' 'cmd1;cmd2;...'  -- assemble (hex) then one naken_util session"""
import sys, os, time, subprocess
sys.path.insert(0, os.path.dirname(os.path.dirname(os.path.abspath(__file__))))
from vlib.core import *
subprocess.run(["make", "-s", "-f", VERIF + "/sim/Makefile", "-j16"], check=True)
src = sys.argv[1].encode().decode("unicode_escape").encode("latin-1")
argv = sys.argv[2].split()
cmds = sys.argv[3].split(";") if len(sys.argv) > 3 else []
ex = Executor()
files = {"/sim/w/a.asm": src}
o = ex.call(build_request(MODE_ASM, ["naken_asm", "-o", "out.hex", "a.asm"], files))
apply_delta(files, o)
sigs = []
if os.environ.get("SIGK"):
    sigs = [{"trigger": "usleep", "k": int(os.environ["SIGK"])}]
o = ex.call(build_request(MODE_UTIL, ["naken_util"] + argv, files, console=cmds, sigs=sigs, cpu_ms=5000))
print("kind=%s status=%s events=%d usleeps=%d sim=%.3fs key=%s" % (o.kind(), o.status, o.event_count, o.usleeps, o.sim_usec / 1e6, crash_key(o, "adhoc")))
t = o.text()
print(t[t.find("Type help"):][-int(os.environ.get("TAIL", "3000")):])
print(o.stderr.decode("latin-1")[:1500])
ex.close()
