#!/usr/bin/env python3
"""tools/mutant_round.py <round-no> [PROP ...]: prepares /tmp/mut<N>/<P> (scratch worktree of /repo HEAD) and
/tmp/mut<N>/<P>-out/{PROMPT.txt,PROPERTY.txt} for a fresh sub-agent per property. Nothing from /verif except the
property text and one-line summaries of earlier seeded changes goes into the prompt."""
import json, glob, os, subprocess, sys
n = int(sys.argv[1]); props = sys.argv[2:] or ["C03", "C12", "C13", "C14", "C15", "C16", "C17", "C19"]
P = {}
for l in open("/verif/properties.jsonl"):
    d = json.loads(l); P[d["id"]] = d
tmpl = open("/tmp/mut3/C17-out/PROMPT.txt").read() if os.path.exists("/tmp/mut3/C17-out/PROMPT.txt") else None
base = "/tmp/mut%d" % n
os.makedirs(base, exist_ok=True)
for p in props:
    wt = "%s/%s" % (base, p); out = wt + "-out"
    os.makedirs(out, exist_ok=True)
    if not os.path.exists(wt):
        subprocess.check_call(["git", "-C", "/repo", "worktree", "add", "--detach", "-q", wt, "HEAD"])
    text = "%s: %s\n\n%s\n" % (p, P[p]["title"], P[p]["statement"])
    open(out + "/PROPERTY.txt", "w").write(text)
    earlier = []
    for m in sorted(glob.glob("/verif/seeded/%s-*/meta.json" % p)):
        d = json.load(open(m))
        earlier.append("  - " + d["summary"].replace("\n", " ")[:200])
    prompt = """You are helping test a verification effort for the open-source project mikeakohn/naken_asm (a multi-CPU assembler `naken_asm`, plus `naken_util`: disassembler / interactive instruction-set simulator), written in C-style C++.

You have your own scratch git worktree of the repository at {wt} (work ONLY there; never touch /repo or /verif, and do not read anything under /verif). Put your deliverables in {out}/.

The semantic property under study (also in {out}/PROPERTY.txt):

---
{text}---

Your task: produce THREE independent, realistic source changes to naken_asm (each one its own patch against the worktree's HEAD) such that each change
  (a) still compiles (`./configure && make -j8` in the worktree; binaries ./naken_asm and ./naken_util),
  (b) still passes the repository's own test suite (`make tests` in the worktree - check its output for failures; it takes a few minutes), and
  (c) BREAKS the property above.
The changes should look like plausible regressions a maintainer could introduce (a refactor slip, an off-by-one, a dropped check, a wrong mask, a missing reset, an error code not propagated, a stale variable...), NOT sabotage that is obvious on first use. Prefer changes that need something specific to manifest: a particular multi-step sequence of operations or commands, a fault or failure at a particular point (e.g. an I/O error, a missing/truncated file, an interrupt), an unusual but legal input or boundary value, a particular history within one process, or two cooperating sites that each look fine alone. Ordinary everyday use and the existing tests must not expose it at once. Make the three changes different in kind and in the code they touch (different files/mechanisms behind the property).

For each change k in 1..3 write:
  {out}/patch<k>.diff      -- `git diff` output, applies with `git apply` to a clean checkout of HEAD
  {out}/demo<k>.sh         -- a self-contained demonstration: `demo<k>.sh <dir>` where <dir> is a built checkout (contains ./naken_asm and ./naken_util); it must exit 0 on the unmodified build and exit non-zero (printing what went wrong) on the build with patch k applied. Use only bash/python3 and files it creates itself under a mktemp dir.
  {out}/meta<k>.json       -- {{"property":"{p}","summary":"what the change does","needs":"what is needed for it to manifest","files":[...],"ran":"what you ran and observed (build, make tests result, demo with/without)"}}
(<k> stands for the number 1, 2 or 3.)

Procedure: read the relevant code first; make change 1; build; run `make tests` and confirm no failures versus the unmodified tree; run your demo against the patched build (must fail) and, after `git checkout -- .` and rebuild, against the clean build (must pass); save the files; restore the worktree to clean HEAD (`git checkout -- .`) before starting the next change. Leave the worktree clean (no modifications) at the end. Do not commit anything. Do not install anything; there is no network.

Report back briefly: for each patch one line on what it does and what you verified. If, while reading, you notice something on the UNCHANGED tree that already breaks the property, mention it too (one line, with the input that shows it).

Earlier rounds already produced the following changes for this property; yours must be different in mechanism and in the code they touch (other files, other functions, other kinds of trigger):
{earlier}

Look for parts of the behaviour behind the property that none of the earlier changes touched (other CPUs, other file formats, other commands or options, other directives, other clauses of the statement). The subtler and more specific the trigger the better, as long as a careful user could meet it with legal use of the tools.
""".format(wt=wt, out=out, text=text, p=p, earlier="\n".join(earlier))
    open(out + "/PROMPT.txt", "w").write(prompt)
    print(p, wt, len(earlier), "earlier changes listed")
