#!/usr/bin/env python3
"""Regenerates the 'fixed' entries of known_findings.json from /repo's fix: commits (open entries are kept as they are).
The property of each commit is assigned by hand below; a fix commit missing from the table is reported."""
import json, os, subprocess, sys
V = os.path.dirname(os.path.dirname(os.path.abspath(__file__)))
PROP = {
 "906527f": "C12", "3e4370b": "C12", "96e2f5e": "C12", "003e6b8": "C12",
 "935efdf": "C17", "57ca334": "C17", "7b0d9eb": "C17", "760f7be": "C17", "301476c": "C19", "80609d3": "C19",
 "21269f2": "C03", "08e5c3a": "C03", "d7dc95f": "C03", "3ccc61c": "C03", "fa2a9d7": "C03", "a999e23": "C03",
 "1907372": "C15", "31e831e": "C15", "f05b211": "C15", "af9d093": "C15", "70e2bf7": "C17", "1d1c388": "C17", "6420d13": "C17",
 "c778c11": "C15", "de33e94": "C15", "b080daa": "C15",
 "7aeda1f": "C16", "aae276a": "C16", "cc5e148": "C16", "527dadb": "C16", "add6d55": "C16", "94e783e": "C16", "625e141": "C16",
 "bb3fae7": "C16", "4e62f9e": "C16", "d87ac3d": "C16", "53bc2a8": "C16", "d56459d": "C16", "0c3d378": "C16", "6fe6f4b": "C16",
 "60922e2": "C17", "f61cc82": "C17", "4ce0fac": "C17", "690d314": "C17", "29d256c": "C17", "ad10972": "C17", "dfa0fdb": "C17",
 "6bf145f": "C17", "e205f04": "C19", "654e582": "C17", "b0ced35": "C17", "5288e64": "C17", "0490f6c": "C17", "14d7c0d": "C17", "30a9671": "C17",
 "0c04803": "C17", "af80b97": "C16", "ef85ca2": "C16", "5e30676": "C16", "0ae4986": "C16", "614730b": "C16", "6b69b26": "C16",
 "f7e1894": "C16", "0334f47": "C16", "3bc12c2": "C16", "492ada4": "C16", "63e6da7": "C17", "8e68f49": "C17", "ddccbe9": "C17",
 "9302df2": "C17", "bf51505": "C16", "9cfd543": "C16", "55b01b9": "C17", "7df6156": "C17", "28c2da9": "C17", "a00df08": "C16",
}
PROP.update(json.load(open(os.path.join(V, "tools", "fixed_props.json"))) if os.path.exists(os.path.join(V, "tools", "fixed_props.json")) else {})
log = subprocess.run(["git", "-C", "/repo", "log", "--reverse", "--format=%h|%s", "7769d5f..HEAD"], stdout=subprocess.PIPE, text=True).stdout
path = os.path.join(V, "known_findings.json")
cur = [k for k in json.load(open(path)) if k.get("status") != "fixed"]
missing = []
for line in log.strip().split("\n"):
    h, subj = line.split("|", 1)
    if not subj.startswith("fix:"):
        continue
    prop = PROP.get(h)
    if prop is None:
        missing.append(line)
        continue
    what = subj[4:].strip()
    cur.append({"property": prop, "status": "fixed", "commit": h, "what": what,
                "line": "fixed: property=%s %s %s" % (prop, h, what)})
json.dump(cur, open(path, "w"), indent=1)
print("open=%d fixed=%d" % (sum(1 for k in cur if k.get("status") == "open"), sum(1 for k in cur if k.get("status") == "fixed")))
for m in missing:
    print("NO PROPERTY ASSIGNED:", m)
sys.exit(1 if missing else 0)
