#!/usr/bin/env python3
"""Writes /verif/MANIFEST.json from the table below (kept in one place so it stays valid)."""
import json, os
V = os.path.dirname(os.path.dirname(os.path.abspath(__file__)))

CLAIMED = {
 "C03": ("5 C03", 'Seeded search over memory images x 6 output formats: the real naken_asm writes each file onto the simulated disk (stale longer file at the path, seeded clock, source reached through different paths, 64 KiB-page and 256-byte-page builds), an independent decoder written from the published format specification reads it back, and a real naken_util lifetime loads it and prints the image; every run is replayable from its plan. Exploration, not proof: a clean batch is evidence over the sampled images (boundary-biased lengths, gaps, 64 KiB/2^24/2^31/2^32 edges, 1/2/4/8 bytes per address, all S-record sizes).',
         "Trusts .org/.db of literal bytes to place bytes, the reference decoders in vlib/decoders.py, and the parser of naken_util's print output; zero-filled gap/padding bytes are tolerated for the formats that serialise the whole span (elf, uf2, bin, Mach-O, Amiga hunk) only; no I/O faults are injected (the statement has none)."),
 "C12": ("5 C12", 'Seeded search over workspace histories (edit/corrupt/plant stale/assemble) under injected open, write (output and listing), vanish, FD-limit and not-seekable-source faults, with every (corruption kind x placement) cell enumerated by directed runs (46 kinds incl. nesting limits, duplicate definitions, exit() paths) and a sweep of every corpus instruction and table mnemonic with boundary / extreme literals; after each naken_asm lifetime the contract model A1-A6 over exit status, stdout and the simulated file system is evaluated.',
         "Trusts the contract model in engines/c12.py (which corruptions are definitely erroneous), SimFs semantics (truncate on fopen 'wb', sticky ENOSPC), and 'Error' as the diagnostic marker; abnormal termination is left to C16."),
 "C13": ("5 C13", 'Self-differential seeded search: one program, one reference execution and 4-10 executions perturbed only along dimensions the property says must not matter (clock, heap/stack garbage, read chunking, reporting flags, output name/type and their combination, build-time page/pool sizes, in-process history through main() and assemble_code()); byte equality with the reference (decoded images across types), plus two twin-program comparisons (MSP430 without its CPU directive, .set values written out) and - through hook H2 of /repo - no byte in the written image that only pass 1 produced, checked on the seeded programs and on a seed-independent sweep of every corpus instruction naming a label defined further down.',
         'Uninitialised-memory dependence is visible only if it changes the output; cross-type comparison trusts the C03 decoders; output written behind the simulated file layer (open() instead of fopen()) shows up as a missing file.'),
 "C14": ("5 C14", 'Lockstep refinement of the real SimulateMsp430 against an executable reference model of the MSP430x1xx/2xx CPU (directed stratification over every instruction x mode x size x register-class cell under all 16 flag states, plus seeded multi-step streams), and chunking-invariance of the run loop through the real naken_util main() (-run, -run -break_io, step x n, run + SIGINT + resume, run + SIGINT + step, run + breakpoint + resume, call) under the simulated clock.',
         "Trusts the reference model (written from SLAU049/SLAU144 chapter 3, with documented don't-care bits and excluded cells), the register-dump parser and naken_asm's encoding of the generated routines (the model executes the same bytes)."),
 "C15": ("5 C15", "Seeded single steps of all 15 simulators from user-reachable states (set_reg/push/set_pc/reset and prefix steps only) under ASan/UBSan, with out-of-address-space page detection, repeatability of the step (and of a second step) across fresh objects / heap fills / unrelated and sibling-instruction histories on the same object, and bounded return of a free-running run() after a SIGINT planned at the k-th usleep of the simulated clock.",
         "Samples the opcode x state space (stratified over the first opcode unit and over the byte after a prefix); state is observed through dump_registers() and a hash of the memory pages; PC-versus-disassembler length agreement is checked for the three simulators that use the disassembler's length (6502, 65816, Z80); a quarter of the cases start from real encodings of the instruction corpus."),
 "C16": ("5 C16", 'Seeded search over naken_asm lifetimes whose input streams end, fail, recurse or vanish at planned points and whose output fills the disk, with buffer-boundary token sizes, deep nesting, extreme addresses, raw bytes, option sets, truncated instructions of every corpus CPU, every corpus instruction and table mnemonic with an extreme literal, every directive between the statements and small symbol/macro pools; monitors are ASan/UBSan (bounds, null, divide-by-zero), exit status, diagnostics and deterministic/CPU-time budgets.',
         'Sanitizer coverage is limited to executed paths; allocation failure is never injected; spans above 2^24 bytes and repeat/reserve/align operands in the millions are not judged for time.'),
 "C17": ("5 C17", 'Seeded search over naken_util lifetimes: object files written by the real assembler, damaged by the simulated disk (torn, flipped, field-mutated), loaded under seeded command lines and driven by scripted console sessions ending with quit or end of input, with planned (re-delivered) SIGINTs, serial-port files, options cut short, and byte-soup / opcode-table sweeps through all 68 disassemblers; same monitors as C16 plus quit/EOF-is-obeyed, first-SIGINT-stops-the-simulation and a progress classifier that separates loops from long listings.',
         'A listing whose addresses keep advancing inside the range it was asked for is not judged however long it is; riscv/mips/ebpf run loops are only interrupted while they print.'),
 "C19": ("5 C19", 'Seeded histories of write*/print*/asm/blank-line/set+step commands in a real naken_util lifetime (optional bin/hex/TI-TXT load with -address/-set_pc, or an ELF with exported labels in either byte order; ranges and addresses also by symbol name) checked command by command against a reference byte map (read-your-writes, frame condition via a final sweep, rejection leaves the image unchanged, simulator agreement on 12 simulators: load-immediate, load-from-memory, store, return through a written stack, run into a breakpoint).',
         'Trusts the reference byte map and the print parser; range-end inclusiveness and the unit of -address on multi-byte-address CPUs are not assumed.'),
}

TECH = "deterministic simulation with fault injection (seeded search over plans; real main() on simulated fs/clock/console/signals; replayable plan files)"

NA = {
 "C01": "pure function of (CPU, instruction text, address): no schedule, clock, fault, stored state or in-process history behind a seam can change it; needs enumeration of instruction forms, which is input sampling, not simulation",
 "C02": "both passes are deterministic functions of the same unchanged text; the only event between them is the fseek(0) re-read, nothing the simulator controls can vary the outcome",
 "C04": "pure function of the expression string (its divide-by-zero rejection clause is exercised as a C16 stressor only)",
 "C05": "pure function of the directive sequence; .binfile's missing/short-file paths are exercised under C12/C16, placement itself has no environment dimension",
 "C06": "pure function of (instruction form, operand value); decisive inputs are field boundaries - an enumeration problem, not a fault/schedule space",
 "C07": "pure function of the machine-word bytes; wants exhaustive enumeration of encodings",
 "C08": "pure function of (bytes, range); termination of disasm on damaged images is monitored incidentally under C17, 'all byte strings' is not a fault space",
 "C09": "text-to-text transformation; include lookup failures are covered under C12/C16 but transparency itself has no environment dimension",
 "C10": "pure function of the condition grammar and nesting (its malformed/unterminated clause appears only as corruption kinds under C12)",
 "C11": "pure function of the program's symbol definitions; no seam influences resolution",
 "C18": "compares two artefacts of one deterministic run; no fault, history or clock in the statement (that -l does not change the output is C13)",
 "C20": "pure function of (object bytes, program); damaged .o/.a inputs are C16 stressors, correct placement has no environment dimension",
}

def main(claimed):
    checks = []
    for pid in claimed:
        ref, text, note = CLAIMED[pid]
        checks.append({
            "property_id": pid,
            "quick_cmd": "bin/check %s --tier quick" % pid,
            "thorough_cmd": "bin/check %s --tier thorough" % pid,
            "evidence_file": "/verif/evidence/%s.json" % pid,
            "replay_cmd_template": "bin/check %s --replay {path}" % pid,
            "engine": "dst-" + pid.lower(),
            "level_claimed": {"category": "exploration", "text": text, "design_ref": "DESIGN.md section " + ref},
            "level_note": note,
            "technique": TECH,
        })
    na = [{"property_id": k, "reason": v} for k, v in sorted(NA.items())]
    for pid in sorted(CLAIMED):
        if pid not in claimed:
            na.append({"property_id": pid, "reason": "engine designed (DESIGN.md section 5) but not yet registered: it is not yet shown deterministic, sensitive and quiet on the unchanged tree"})
    m = {
        "version": 1,
        "setup_cmd": "make -s -f sim/Makefile -j16 && make -s -f sim/Makefile -j16 V=small",
        "hooks": {"guard": "NAKEN_ASM_VERIF",
                  "enable": "sim/Makefile passes -DNAKEN_ASM_VERIF to every /repo source; the 'small' build variant (make -f sim/Makefile V=small) additionally passes -DNAKEN_ASM_VERIF_PAGE_SIZE=256 -DNAKEN_ASM_VERIF_SYMBOLS_HEAP_SIZE=1024 -DNAKEN_ASM_VERIF_MACROS_HEAP_SIZE=4096 (hook H1: build-time knobs in core/MemoryPage.h, core/Symbols.h, core/Macros.h). Hook H2 (core/MemoryPage.h, core/Memory.{h,cpp}, core/AsmContext.h, fileio/file.cpp): every byte of the assembler's image remembers which pass wrote it last, file_write() counts the bytes of the image that pass 2 never wrote, and a further counter says how many bytes pass 2 wrote more than once (read by the executor through three globals; no behaviour change). All other seams are intercepted at link time (-Wl,--wrap, -Dmain=..., shadow readline headers).",
                  "baseline_off_cmd": "cd /repo && ./configure && make && make tests", "source_commits": ["14c4d8b", "dd792ba", "333843b"], "add_only": True},
        "engines": [{"name": "dst-" + p.lower(), "path": "engines/%s.py" % p.lower(), "serves_properties": [p],
                     "kind_free_text": "deterministic simulation: Python planner/oracle + C++ executor (sim/executor.cpp) linked with /repo's objects"} for p in claimed],
        "checks": checks,
        "notes": "All checks share bin/check (controller), vlib/ (PRNG, wire, framework), sim/ (executor). exit 0 = held, 1 = VIOLATION line with replay file, 2 = harness trouble. Known findings: /verif/known_findings.json.",
        "not_applicable": na,
    }
    json.dump(m, open(os.path.join(V, "MANIFEST.json"), "w"), indent=1)

if __name__ == "__main__":
    import sys
    main(sys.argv[1:])
