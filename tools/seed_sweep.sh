#!/bin/bash
# usage: seed_sweep.sh <first seed> <last seed> [props...]  -- quick tier of every check under several seeds (saturation aid)
A=$1; B=$2; shift 2
PROPS=${@:-C03 C12 C13 C14 C15 C16 C17 C19}
for s in $(seq $A $B); do
  for p in $PROPS; do
    VERIF_SEED=$s bin/check $p --tier quick --no-evidence --dump-keys > sweep_$p_$s.log 2>&1
    echo "seed=$s $p exit=$? $(grep -c '^VIOLATION' sweep_$p_$s.log) violations"
    grep -E "^\[C..\] KEY" sweep_$p_$s.log | grep -v -f <(python3 -c "
import json
for k in json.load(open('known_findings.json')):
    if k.get('status')=='open': print(k['key'])") | cut -c1-400
  done
done
