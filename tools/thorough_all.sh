#!/bin/bash
# thorough tier of every registered check, one after the other (triage aid; not a registered command)
for p in ${@:-C03 C12 C13 C14 C15 C16 C17 C19}; do
  bin/check $p --tier thorough --no-evidence --dump-keys > thorough_$p.log 2>&1
  echo "$p exit=$? $(grep -E 'ok tier|FAIL' thorough_$p.log | cut -c1-200)"
  grep -E "^\[C..\] KEY" thorough_$p.log | grep -v -F -f <(python3 -c "
import json
for k in json.load(open('known_findings.json')):
    if k.get('status')=='open': print(k['key'])") | cut -c1-500
done
