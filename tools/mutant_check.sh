#!/bin/bash
# usage: mutant_check.sh <patch> <PROP> [extra check args]  -- applies the patch to /repo, runs the quick check, reverts.
set -u
P=$1; PROP=$2; shift 2
git -C /repo diff --quiet || { echo "/repo is dirty"; exit 2; }
git -C /repo apply "$P" || exit 2
/verif/bin/check $PROP --tier quick --no-evidence "$@" > /tmp/mutcheck_$PROP.log 2>&1; RC=$?
git -C /repo checkout -- .
echo "check_exit=$RC"; grep -E "VIOLATION|violation |FAIL|ok tier|HARNESS" /tmp/mutcheck_$PROP.log | cut -c1-400 | head -12
# the replay files written by a mutant run are not findings on the real tree
