#!/usr/bin/env python3
"""mutant_keep.py <agent out dir> <K> <seeded id> <verify line> <detected: yes|no> <keys / note>"""
import json, os, shutil, sys
out, k, sid, verify, detected, note = sys.argv[1:7]
d = os.path.join(os.path.dirname(os.path.dirname(os.path.abspath(__file__))), "seeded", sid)
os.makedirs(d, exist_ok=True)
shutil.copy(os.path.join(out, "patch%s.diff" % k), os.path.join(d, "patch.diff"))
shutil.copy(os.path.join(out, "demo%s.sh" % k), os.path.join(d, "demo.sh"))
meta = json.load(open(os.path.join(out, "meta%s.json" % k)))
meta["author"] = "independent sub-agent given only the property text and a scratch worktree"
meta["confirmed_by_main_session"] = {"how": "tools/mutant_verify.sh in a scratch worktree of /repo HEAD (clean build passes the demo; patched build compiles, fails the demo, passes make tests)", "result": verify}
meta["detection"] = {"check": "bin/check %s --tier quick (tools/mutant_check.sh: git apply to /repo, run, git checkout)" % meta["property"],
                     "detected": detected == "yes", "note": note}
json.dump(meta, open(os.path.join(d, "meta.json"), "w"), indent=1)
print("kept", d)
